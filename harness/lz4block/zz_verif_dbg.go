//go:build verif

package lz4block

func init() { vfHarnesses["H_dbg"] = H_dbg }

func H_dbg() {
	n := vfParam("n")
	src := vfBytes("src", n)
	for i := 0; i < 4; i++ {
		vfAssume(src[4+i] == src[i])
	}
	dst := make([]byte, CompressBlockBound(n))
	var c Compressor
	m, _ := c.CompressBlock(src, dst)
	vfNote("m", m)
	vfReach("end")
	if m < n {
		vfReach("compressed")
	}
}
