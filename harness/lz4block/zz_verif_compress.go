//go:build verif

package lz4block

func init() {
	vfHarnesses["H_compress"] = H_compress
	vfHarnesses["H_compress_det"] = H_compress_det
	vfHarnesses["H_compress_hist"] = H_compress_hist
}

// hSrc builds a source like hSource but with explicit shape parameters and a tag.
func hSrc(tag string, n, period, tail int) []byte {
	if period <= 0 || period >= n {
		return vfBytes(tag, n)
	}
	if tail > n-period {
		tail = n - period
	}
	src := make([]byte, 0, n)
	src = append(src, vfBytes(tag, period)...)
	for len(src) < n-tail {
		src = append(src, src[len(src)-period])
	}
	return append(src, vfBytes(tag+"t", tail)...)
}

// H_compress_hist (C14): a real history instead of an assumed prior state. One compressor
// object first compresses (src0 -> a destination of dl0 bytes, typically too short, so the
// call fails part-way), then compresses src; the result must equal what a fresh object gives.
func H_compress_hist() {
	kind := vfParam("kind") // 0 fast, 3 HC
	depth := vfParam("depth")
	src0 := hSrc("a", vfParam("n0"), vfParam("period0"), vfParam("tail0"))
	src := hSrc("b", vfParam("n"), vfParam("period"), vfParam("tail"))
	dl := vfParam("dl")
	if dl < 0 {
		dl = CompressBlockBound(len(src))
	}
	d0 := make([]byte, vfParam("dl0"))
	d1 := vfBytes("d1", dl)
	d2 := vfBytes("d2", dl)
	var m1, m2 int
	var e1, e2 error
	// optional third step in between: a tiny source (too short to hold a match)
	var mid, dmid []byte
	if nmid := vfParam("nmid"); nmid >= 0 {
		mid = vfBytes("mid", nmid)
		dmid = make([]byte, CompressBlockBound(nmid))
	}
	if kind == 0 {
		var c, f Compressor
		c.CompressBlock(src0, d0)
		if dmid != nil {
			c.CompressBlock(mid, dmid)
		}
		m1, e1 = c.CompressBlock(src, d1)
		m2, e2 = f.CompressBlock(src, d2)
	} else {
		var c, f CompressorHC
		c.CompressBlock(src0, d0, CompressionLevel(depth))
		if dmid != nil {
			c.CompressBlock(mid, dmid, CompressionLevel(depth))
		}
		m1, e1 = c.CompressBlock(src, d1, CompressionLevel(depth))
		m2, e2 = f.CompressBlock(src, d2, CompressionLevel(depth))
	}
	vfNote("m1", m1)
	vfNote("m2", m2)
	// C01 for a reused object with a real history: success at the bound and round trip
	if dl >= CompressBlockBound(len(src)) {
		vfAssert("roundtrip-hist-bound-size-succeeds", vfAnd(m1 > 0, e1 == nil))
	}
	if m1 > 0 {
		mm := vfConc(m1)
		if mm > 0 {
			if mm <= dl {
				back := make([]byte, len(src))
				r, derr := UncompressBlock(d1[:mm], back, nil)
				vfAssert("roundtrip-hist-decodes", vfAnd(derr == nil, r == len(src)))
				vfAssert("roundtrip-hist-bytes", vfEqBytes(back, src))
			}
		}
	}
	vfAssert("hist-same-count", m1 == m2)
	vfAssert("hist-same-error", (e1 == nil) == (e2 == nil))
	k := vfConc(m1)
	if k >= 0 {
		if k <= dl {
			vfAssume(m2 == k)
			vfAssert("hist-same-bytes", vfEqBytes(d1[:k], d2[:k]))
		}
	}
	vfReach("end")
}

const hCSpare = 16

// hRunCompressor runs one of the block compressors on (src, dst).
// kind: 0 fast/fresh object, 1 fast/reused object with arbitrary prior table contents,
//       2 fast/package-level function with such an object sitting in the pool,
//       3 HC/fresh, 4 HC/reused (arbitrary tables, needsReset), 5 HC/package-level via pool.
func hRunCompressor(tag string, kind, depth int, src, dst []byte) (int, error) {
	switch kind {
	case 0:
		var c Compressor
		return c.CompressBlock(src, dst)
	case 1:
		c := new(Compressor)
		vfHavocU16(tag+"table", c.table[:])
		vfHavocU32(tag+"inuse", c.inUse[:])
		return c.CompressBlock(src, dst)
	case 2:
		c := new(Compressor)
		vfHavocU16(tag+"table", c.table[:])
		vfHavocU32(tag+"inuse", c.inUse[:])
		compressorPool.Put(c)
		return CompressBlock(src, dst)
	case 3:
		var c CompressorHC
		return c.CompressBlock(src, dst, CompressionLevel(depth))
	case 4:
		c := new(CompressorHC)
		vfHavocInt(tag+"hash", c.hashTable[:])
		vfHavocInt(tag+"chain", c.chainTable[:])
		c.needsReset = true
		return c.CompressBlock(src, dst, CompressionLevel(depth))
	default:
		c := new(CompressorHC)
		vfHavocInt(tag+"hash", c.hashTable[:])
		vfHavocInt(tag+"chain", c.chainTable[:])
		c.needsReset = true
		compressorHCPool.Put(c)
		return CompressBlockHC(src, dst, CompressionLevel(depth))
	}
}

// hSource builds the n-byte source: fully symbolic (period 0), or periodic with a symbolic
// first period and `tail` symbolic bytes at the end (long runs / periodic data of C10's quantifier).
func hSource(n int) []byte {
	period := vfParam("period")
	if period <= -60000 {
		// long-literal-run family: -period concrete incompressible bytes (a literal run whose length
		// code needs more than 255 extension bytes), then a run of one byte long enough for the
		// fast compressor's accelerated scan to find it, then `tail` symbolic bytes
		l := -period
		tail := vfParam("tail")
		src := make([]byte, 0, n)
		x := uint32(2463534242)
		for i := 0; i < l; i++ {
			x = x*1664525 + 1013904223
			src = append(src, byte(x>>24))
		}
		for len(src) < n-tail {
			src = append(src, 0x07)
		}
		return append(src, vfBytes("tail", n-len(src))...)
	}
	if period < 0 {
		// literal-run family: -period concrete pairwise-distinct bytes (no 4-byte repeats), then the
		// same bytes again (a match after a literal run of exactly that length), then `tail`
		// symbolic bytes
		l := -period
		tail := vfParam("tail")
		src := make([]byte, 0, n)
		for i := 0; i < l && len(src) < n-tail; i++ {
			// no 4-byte group occurs twice for l <= 700 (checked by enumeration); for i < 251 this is
			// (i*37+11)%251, beyond it the step changes with i/251 so that the pattern does not
			// come round again after 251 bytes (it did, which cut the runs of 255+ bytes short)
			q, r := i/251, i%251
			src = append(src, byte((r*37+11+q*(r+1))%251))
		}
		for i := 0; len(src) < n-tail; i++ {
			src = append(src, src[i%l])
		}
		return append(src, vfBytes("tail", n-len(src))...)
	}
	if period >= 60000 {
		// window family: n bytes of concrete periodic filler; the 8 bytes at position 16 and the
		// 8 bytes at position 16+period are the same symbolic window (wsym != 0) or the same
		// concrete window: a repeat at distance exactly `period` (65534..65537).
		// filler: a 251-byte pattern of distinct bytes repeated, so that one long match (offset
		// 251) runs up to the second window and the compressor probes exactly there
		src := make([]byte, n)
		for i := range src {
			src[i] = byte(((i % 251) * 37 + 11) % 251)
		}
		var w []byte
		if vfParam("tail") != 0 {
			w = vfBytes("win", 8)
		} else {
			w = []byte{0xA1, 0xB2, 0xC3, 0xD4, 0xE5, 0xF6, 0x07, 0x18}
		}
		copy(src[16:], w)
		copy(src[16+period:], w)
		return src
	}
	if period >= 1000 && period < 2000 {
		// match-length family: a run of one byte whose length is chosen by the solver among
		// period-1000+1 values, then concrete pairwise-distinct bytes (at least `tail` of them, so
		// that the compressors do not cut the match short): the long match takes every length in a
		// window around the points where its length code gains an extension byte
		free := period - 1000
		pad := vfParam("tail")
		run := n - free - pad + vfChoice("runext", free+1)
		src := make([]byte, 0, n)
		for i := 0; i < run; i++ {
			src = append(src, 0x07)
		}
		for i := 0; len(src) < n; i++ {
			src = append(src, byte(0x10+(i*37+11)%211))
		}
		return src
	}
	if period == 0 || period >= n {
		return vfBytes("src", n)
	}
	tail := vfParam("tail")
	if tail > n-period {
		tail = n - period
	}
	src := make([]byte, 0, n)
	src = append(src, vfBytes("src", period)...)
	for len(src) < n-tail {
		src = append(src, src[len(src)-period])
	}
	src = append(src, vfBytes("tail", tail)...)
	return src
}

// H_compress serves C01 (round trip), C10 (strict validity) and C11 (destination contract).
// dl: destination length; negative values are relative to the bound (-1 = bound, -2 = bound-1, ...).
func H_compress() {
	n := vfParam("n")
	kind := vfParam("kind")
	depth := vfParam("depth")
	dl := vfParam("dl")
	src := hSource(n)
	bound := CompressBlockBound(n)
	if dl < 0 {
		dl = bound + dl + 1
		if dl < 0 {
			dl = 0
		}
	}
	big := vfBytes("dst", dl+hCSpare)
	dst := big[:dl]
	canary := append([]byte{}, big...)
	srcCopy := append([]byte{}, src...)

	m, err := hRunCompressor("", kind, depth, src, dst)

	vfNote("m", m)
	vfNote("err", vfIteInt(err != nil, 1, 0))
	// C11: destination contract
	vfAssert("src-unmodified", vfEqBytes(src, srcCopy))
	vfAssert("no-write-beyond-len", vfEqBytes(big[dl:], canary[dl:]))
	vfAssert("count-le-len", vfAnd(m >= 0, m <= len(dst)))
	if dl >= bound {
		vfAssert("bound-size-succeeds", vfAnd(m > 0, err == nil))
	}
	if m > 0 {
		mm := vfConc(m)
		vfAssume(mm > 0)
		vfAssume(mm <= len(dst))
		blk := dst[:mm]
		vfNoteBytes("blk", blk)
		// C11/C01: a positive count is a complete block for the whole source
		out, ok := refDecodeBlock(blk, n, nil)
		vfAssert("block-decodes", ok)
		vfAssert("block-decodes-to-source", vfEqBytes(out, src))
		// C10: strictly valid
		vfAssert("block-strictly-valid", refStrictBlock(blk, n))
		// C01: the package's own decoder (assembly or portable, per build) restores the source
		back := make([]byte, n)
		r, derr := UncompressBlock(blk, back, nil)
		vfAssert("roundtrip-no-error", derr == nil)
		vfAssert("roundtrip-length", r == n)
		vfAssert("roundtrip-bytes", vfEqBytes(back, src))
	}
	vfReach("end")
}

// H_compress_det serves C14 at block level: the same source, depth and destination size
// compressed from two different prior compressor / pool states give identical results.
func H_compress_det() {
	n := vfParam("n")
	kindA := vfParam("kindA")
	kindB := vfParam("kindB")
	depth := vfParam("depth")
	dl := vfParam("dl")
	src := hSource(n)
	bound := CompressBlockBound(n)
	if dl < 0 {
		dl = bound + dl + 1
		if dl < 0 {
			dl = 0
		}
	}
	d1 := vfBytes("dstA", dl)
	d2 := vfBytes("dstB", dl)
	m1, e1 := hRunCompressor("A", kindA, depth, src, d1)
	m2, e2 := hRunCompressor("B", kindB, depth, src, d2)
	vfNote("m1", m1)
	vfNote("m2", m2)
	vfAssert("same-count", m1 == m2)
	vfAssert("same-error", (e1 == nil) == (e2 == nil))
	k := vfConc(m1)
	if k >= 0 {
		if k <= dl {
			vfAssume(m2 == k)
			vfAssert("same-bytes", vfEqBytes(d1[:k], d2[:k]))
		}
	}
	vfReach("end")
}
