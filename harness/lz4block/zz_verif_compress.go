//go:build verif

package lz4block

func init() {
	vfHarnesses["H_compress"] = H_compress
	vfHarnesses["H_compress_det"] = H_compress_det
}

const hCSpare = 16

// hRunCompressor runs one of the block compressors on (src, dst).
// kind: 0 fast/fresh object, 1 fast/reused object with arbitrary prior table contents,
//       2 fast/package-level function with such an object sitting in the pool,
//       3 HC/fresh, 4 HC/reused (arbitrary tables, needsReset), 5 HC/package-level via pool.
func hRunCompressor(tag string, kind, depth int, src, dst []byte) (int, error) {
	switch kind {
	case 0:
		var c Compressor
		return c.CompressBlock(src, dst)
	case 1:
		c := new(Compressor)
		vfHavocU16(tag+"table", c.table[:])
		vfHavocU32(tag+"inuse", c.inUse[:])
		return c.CompressBlock(src, dst)
	case 2:
		c := new(Compressor)
		vfHavocU16(tag+"table", c.table[:])
		vfHavocU32(tag+"inuse", c.inUse[:])
		compressorPool.Put(c)
		return CompressBlock(src, dst)
	case 3:
		var c CompressorHC
		return c.CompressBlock(src, dst, CompressionLevel(depth))
	case 4:
		c := new(CompressorHC)
		vfHavocInt(tag+"hash", c.hashTable[:])
		vfHavocInt(tag+"chain", c.chainTable[:])
		c.needsReset = true
		return c.CompressBlock(src, dst, CompressionLevel(depth))
	default:
		c := new(CompressorHC)
		vfHavocInt(tag+"hash", c.hashTable[:])
		vfHavocInt(tag+"chain", c.chainTable[:])
		c.needsReset = true
		compressorHCPool.Put(c)
		return CompressBlockHC(src, dst, CompressionLevel(depth))
	}
}

// hSource builds the n-byte source: fully symbolic (period 0), or periodic with a symbolic
// first period and `tail` symbolic bytes at the end (long runs / periodic data of C10's quantifier).
func hSource(n int) []byte {
	period := vfParam("period")
	if period <= 0 || period >= n {
		return vfBytes("src", n)
	}
	tail := vfParam("tail")
	if tail > n-period {
		tail = n - period
	}
	src := make([]byte, 0, n)
	src = append(src, vfBytes("src", period)...)
	for len(src) < n-tail {
		src = append(src, src[len(src)-period])
	}
	src = append(src, vfBytes("tail", tail)...)
	return src
}

// H_compress serves C01 (round trip), C10 (strict validity) and C11 (destination contract).
// dl: destination length; negative values are relative to the bound (-1 = bound, -2 = bound-1, ...).
func H_compress() {
	n := vfParam("n")
	kind := vfParam("kind")
	depth := vfParam("depth")
	dl := vfParam("dl")
	src := hSource(n)
	bound := CompressBlockBound(n)
	if dl < 0 {
		dl = bound + dl + 1
		if dl < 0 {
			dl = 0
		}
	}
	big := vfBytes("dst", dl+hCSpare)
	dst := big[:dl]
	canary := append([]byte{}, big...)
	srcCopy := append([]byte{}, src...)

	m, err := hRunCompressor("", kind, depth, src, dst)

	vfNote("m", m)
	vfNote("err", vfIteInt(err != nil, 1, 0))
	// C11: destination contract
	vfAssert("src-unmodified", vfEqBytes(src, srcCopy))
	vfAssert("no-write-beyond-len", vfEqBytes(big[dl:], canary[dl:]))
	vfAssert("count-le-len", vfAnd(m >= 0, m <= len(dst)))
	if dl >= bound {
		vfAssert("bound-size-succeeds", vfAnd(m > 0, err == nil))
	}
	if m > 0 {
		mm := vfConc(m)
		vfAssume(mm > 0)
		vfAssume(mm <= len(dst))
		blk := dst[:mm]
		vfNoteBytes("blk", blk)
		// C11/C01: a positive count is a complete block for the whole source
		out, ok := refDecodeBlock(blk, n, nil)
		vfAssert("block-decodes", ok)
		vfAssert("block-decodes-to-source", vfEqBytes(out, src))
		// C10: strictly valid
		vfAssert("block-strictly-valid", refStrictBlock(blk, n))
		// C01: the package's own decoder (assembly or portable, per build) restores the source
		back := make([]byte, n)
		r, derr := UncompressBlock(blk, back, nil)
		vfAssert("roundtrip-no-error", derr == nil)
		vfAssert("roundtrip-length", r == n)
		vfAssert("roundtrip-bytes", vfEqBytes(back, src))
	}
	vfReach("end")
}

// H_compress_det serves C14 at block level: the same source, depth and destination size
// compressed from two different prior compressor / pool states give identical results.
func H_compress_det() {
	n := vfParam("n")
	kindA := vfParam("kindA")
	kindB := vfParam("kindB")
	depth := vfParam("depth")
	dl := vfParam("dl")
	src := hSource(n)
	bound := CompressBlockBound(n)
	if dl < 0 {
		dl = bound + dl + 1
		if dl < 0 {
			dl = 0
		}
	}
	d1 := vfBytes("dstA", dl)
	d2 := vfBytes("dstB", dl)
	m1, e1 := hRunCompressor("A", kindA, depth, src, d1)
	m2, e2 := hRunCompressor("B", kindB, depth, src, d2)
	vfNote("m1", m1)
	vfNote("m2", m2)
	vfAssert("same-count", m1 == m2)
	vfAssert("same-error", (e1 == nil) == (e2 == nil))
	k := vfConc(m1)
	if k >= 0 {
		if k <= dl {
			vfAssume(m2 == k)
			vfAssert("same-bytes", vfEqBytes(d1[:k], d2[:k]))
		}
	}
	vfReach("end")
}
