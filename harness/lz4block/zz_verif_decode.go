//go:build verif

package lz4block

func init() {
	vfHarnesses["H_decode"] = H_decode
	vfHarnesses["H_decode_cmp"] = H_decode_cmp
	vfDecodeBlockHook = decodeBlock
}

const hSpare = 24

// hDecodeInputs builds (src, dict, dst, big) for the decode harnesses.
// layout 0: dst is a sub-slice of a larger buffer whose tail holds arbitrary canary bytes;
// layout 1/2 (native replay of out-of-bounds accesses): src, dict and dst each end (1) or
// start (2) exactly at an inaccessible page, cap == len.
func hDecodeInputs() (src, dict, dst, big []byte) {
	ns := vfParam("ns")
	nd := vfParam("nd")
	nk := vfParam("nk")
	layout := vfParam("layout")
	refCapML = vfParam("capml")
	refOffWin = vfParam("offwin")
	// source = ns arbitrary bytes (family A), or a shaped block (family S):
	//   [sequence 1: l1 literals, offset, match nibble (+1 extension byte if m1ext)]
	//   [sequence 2: l2 literals, ...] [literals-only run of t bytes], minus `cut` trailing bytes.
	// A part with length -1 is omitted. All field values and literal bytes are symbolic.
	src = append(src, vfBytes("src", ns)...)
	src = append(src, hSeq("1", vfParam("l1"), vfParam("m1ext"))...)
	src = append(src, hSeq("2", vfParam("l2"), vfParam("m2ext"))...)
	if t := vfParam("t"); t >= 0 {
		src = append(src, hLitHeader(t, vfByte("tokt_lo")&0x0F)...)
		src = append(src, vfBytes("litt", t)...)
	}
	if cut := vfParam("cut"); cut > 0 && cut <= len(src) {
		src = src[:len(src)-cut]
	}
	src = src[:len(src):len(src)]
	if nk > 0 {
		dict = vfBytes("dict", nk)
	}
	big = vfBytes("dst", nd+hSpare)
	switch {
	case vfParam("nildst") != 0:
		dst = nil
	case layout == 0:
		dst = big[:nd]
	default:
		g := vfGuardAlloc(len(src), layout == 2)
		copy(g, src)
		src = g
		if nk > 0 {
			g = vfGuardAlloc(nk, layout == 2)
			copy(g, dict)
			dict = g
		}
		g = vfGuardAlloc(nd, layout == 2)
		copy(g, big[:nd])
		dst = g
		big = nil
	}
	if vfParam("nildst") != 0 {
		big = nil
	}
	return
}

// hLitHeader encodes the token (+ length extension bytes) announcing l literal bytes.
func hLitHeader(l int, lo byte) []byte {
	if l < 15 {
		return []byte{byte(l<<4) | lo}
	}
	h := []byte{0xF0 | lo}
	for l -= 15; l >= 255; l -= 255 {
		h = append(h, 255)
	}
	return append(h, byte(l))
}

// hSeq builds one sequence with l literal bytes and a match: the match-length nibble is
// symbolic below 15 (mext == 0) or 15 followed by one symbolic extension byte < 255 (mext == 1).
func hSeq(tag string, l, mext int) []byte {
	if l < 0 {
		return nil
	}
	lo := vfByte("tok"+tag+"_lo") & 0x0F
	if mext == 0 {
		vfAssume(lo < 15)
	} else {
		vfAssume(lo == 15)
	}
	s := hLitHeader(l, lo)
	s = append(s, vfBytes("lit"+tag, l)...)
	s = append(s, vfBytes("off"+tag, 2)...)
	if mext != 0 {
		e := vfByte("ext" + tag)
		vfAssume(e < 255)
		s = append(s, e)
	}
	return s
}

// H_decode serves C03 (memory safety) and C04 (format exactness) for one decoder
// build: arbitrary source bytes, arbitrary prior destination contents, spare
// capacity beyond len(dst) filled with arbitrary canary bytes.
func H_decode() {
	src, dict, dst, big := hDecodeInputs()
	nd := len(dst)
	canary := append([]byte{}, big...)
	srcCopy := append([]byte{}, src...)
	dictCopy := append([]byte{}, dict...)

	want, ok := refDecodeBlock(src, len(dst), dict)

	n, err := UncompressBlock(src, dst, dict)

	// C03: inputs untouched, nothing written beyond len(dst), count in range
	vfAssert("src-unmodified", vfEqBytes(src, srcCopy))
	vfAssert("dict-unmodified", vfEqBytes(dict, dictCopy))
	if big != nil {
		vfAssert("no-write-beyond-len", vfEqBytes(big[nd:], canary[nd:]))
	}
	if err == nil {
		vfAssert("count-in-range", vfAnd(n >= 0, n <= len(dst)))
	} else {
		vfAssert("error-count-zero", n == 0)
	}
	vfNote("n", n)
	vfNote("err", vfIteInt(err != nil, 1, 0))
	// C04: exactness against the reference decoder
	if len(src) > 0 {
		if ok {
			vfAssert("valid-block-accepted", err == nil)
			vfAssert("length-equals-reference", n == len(want))
			nn := vfConc(n)
			vfAssume(nn >= 0)
			vfAssume(nn <= len(dst))
			vfAssert("bytes-equal-reference", vfEqBytes(dst[:nn], want))
		} else {
			vfAssert("invalid-block-rejected", err != nil)
		}
	}
	vfReach("end")
}

// H_decode_cmp (C12): the portable decoder and the amd64 assembly on the same inputs,
// from the same prior destination contents. Under vcheck both run in one symbolic
// execution; natively each build records its observation and the two builds are diffed.
func H_decode_cmp() {
	src, dict, dst, _ := hDecodeInputs()
	refDecodeBlock(src, len(dst), dict) // only to fix the parse structure (concretises lengths/offsets)
	var dst2 []byte
	if dst != nil {
		dst2 = append([]byte{}, dst...)
	}
	rGo := decodeBlock(dst, src, dict)
	vfNote("r", vfIteInt(rGo < 0, -1, rGo))
	if rGo >= 0 {
		k := vfConc(rGo)
		if k <= len(dst) {
			vfNoteBytes("out", dst[:k])
		}
	}
	if vfSymbolic() {
		rAsm := vfAsmDecodeBlock(dst2, src, dict)
		vfAssert("same-outcome", (rGo < 0) == (rAsm < 0))
		if rGo >= 0 {
			vfAssert("same-length", rGo == rAsm)
			k := vfConc(rGo)
			if k >= 0 {
				if k <= len(dst) {
					vfAssert("same-bytes", vfEqBytes(dst[:k], dst2[:k]))
				}
			}
		}
	}
	vfReach("end")
}
