//go:build verif && go1.18

package xxh32

func init() {
	vfHarnesses["H_C13_api_step"] = H_C13_api_step
}

// hAddCounter adds d to a byte counter of whatever unsigned width the implementation uses.
func hAddCounter[T ~uint32 | ~uint64](p *T, d uint64) { *p += T(d) }

// H_C13_api_step: an inductive step on states produced through the public API. The pre-state
// is Reset + one Write of (16*stripes + bufused) symbolic bytes; with stripes = 1 the lanes are
// already arbitrary (each lane update is a bijection of the stripe word) and the byte counter
// is then advanced by an arbitrary multiple of 16 - the only lasting effect, besides the lanes,
// of having written that many more whole stripes. From there one Write of m symbolic bytes
// (optionally followed by an empty Write) and Sum32/Sum must agree with the reference: totals
// around and beyond 2^32 are inside the claim, and no unexported field other than the counter
// is touched, so the harness does not depend on how the implementation represents its state.
func H_C13_api_step() {
	bufused := vfParam("bufused")
	stripes := vfParam("stripes")
	m := vfParam("m")
	var x XXHZero
	ref := refXXHNew()
	p0 := vfBytes("p0", 16*stripes+bufused)
	x.Write(p0)
	ref.update(p0)
	if stripes > 0 {
		delta := vfU64("delta")
		vfAssume(delta%16 == 0)
		vfAssume(delta < 1<<62)
		hAddCounter(&x.totalLen, delta)
		ref.total += delta
	}
	p := vfBytes("p", m)
	x.Write(p)
	ref.update(p)
	if vfParam("extra") != 0 {
		x.Write(nil)
	}
	got := x.Sum32()
	vfNote("got", int(got))
	vfNote("total_lo", int(uint32(ref.total)))
	vfNote("total_hi", int(ref.total>>32))
	vfAssert("api-step-sum32-equals-reference", got == ref.digest())
	// a second write after the step (two-step histories from the jumped counter)
	q := vfBytes("q", vfParam("m2"))
	x.Write(q)
	ref.update(q)
	vfAssert("api-step2-sum32-equals-reference", x.Sum32() == ref.digest())
	vfReach("end")
}
