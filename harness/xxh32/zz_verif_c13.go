//go:build verif

package xxh32

func init() {
	vfHarnesses["H_C13_oneshot"] = H_C13_oneshot
	vfHarnesses["H_C13_split"] = H_C13_split
	vfHarnesses["H_C13_step_write"] = H_C13_step_write
	vfHarnesses["H_C13_step_sum"] = H_C13_step_sum
	vfHarnesses["H_C13_base"] = H_C13_base
	vfHarnesses["H_C13_confirm_long"] = H_C13_confirm_long
}

// H_C13_oneshot: ChecksumZero(x) == refXXH32(x) for every x of length n.
func H_C13_oneshot() {
	n := vfParam("n")
	x := vfBytes("x", n)
	got := ChecksumZero(x)
	want := refXXH32(x)
	vfNote("got", int(got))
	vfAssert("oneshot-equals-reference", got == want)
	vfReach("end")
}

// H_C13_split: through the public streaming API, any 3-way split of n bytes.
func H_C13_split() {
	n := vfParam("n")
	k1 := vfParam("k1")
	k2 := vfParam("k2")
	x := vfBytes("x", n)
	var h XXHZero
	h.Write(x[:k1])
	h.Write(x[k1:k2])
	h.Write(x[k2:])
	got := h.Sum32()
	vfNote("got", int(got))
	vfAssert("split-equals-reference", got == refXXH32(x))
	s := h.Sum(nil)
	vfAssert("sum-appends-le32", vfAnd(len(s) == 4, vfAnd(vfAnd(s[0] == byte(got), s[1] == byte(got>>8)), vfAnd(s[2] == byte(got>>16), s[3] == byte(got>>24)))))
	// Reset then reuse gives the one-shot value again
	h.Reset()
	h.Write(x)
	vfAssert("reset-reuse", h.Sum32() == got)
	vfReach("end")
}

// hC13State builds an arbitrary implementation state with the given number of
// buffered bytes, together with the reference state related to it by R:
//   ref.total = totalLen, ref.msize = bufused = totalLen mod 16,
//   ref.mem[:msize] = buf[:bufused], ref.v = v if totalLen > 0 else the initial lanes.
func hC13State(bufused int) (*XXHZero, *refXXHState) {
	x := &XXHZero{}
	ref := refXXHNew()
	x.totalLen = vfU64("total")
	vfAssume(x.totalLen%16 == uint64(bufused))
	for k := 0; k < 4; k++ {
		x.v[k] = vfU32("v")
	}
	if x.totalLen != 0 { // a fork, not an ite: keeps both sides' hash terms syntactically aligned
		for k := 0; k < 4; k++ {
			ref.v[k] = x.v[k]
		}
	}
	x.bufused = bufused
	// the whole carry buffer is arbitrary; only the first bufused bytes are meaningful
	for i := 0; i < 16; i++ {
		x.buf[i] = vfByte("buf")
	}
	ref.total = x.totalLen
	ref.msize = bufused
	for i := 0; i < bufused; i++ {
		ref.mem[i] = x.buf[i]
	}
	return x, ref
}

// H_C13_step_write: one inductive step. From ANY state related by R, Write(p) with
// len(p)=m leads to a state related by R again (so by induction every history of
// writes of at most m bytes each, of any total length, keeps R).
func H_C13_step_write() {
	bufused := vfParam("bufused")
	m := vfParam("m")
	x, ref := hC13State(bufused)
	p := vfBytes("p", m)
	vfAssume(ref.total+uint64(m) >= ref.total) // no 64-bit wrap of the byte counter (2^64 bytes is out of scope)
	_, err := x.Write(p)
	ref.update(p)
	vfAssert("write-no-error", err == nil)
	vfAssert("R-total", x.totalLen == ref.total)
	vfAssert("R-bufused", x.bufused == ref.msize)
	nb := vfConc(x.bufused)
	vfAssume(nb >= 0)
	vfAssume(nb < 16)
	vfAssert("R-buf", vfEqBytes(x.buf[:nb], ref.mem[:nb]))
	nonzero := x.totalLen > 0
	vfAssert("R-lanes", vfImplies(nonzero, vfAnd(vfAnd(x.v[0] == ref.v[0], x.v[1] == ref.v[1]), vfAnd(x.v[2] == ref.v[2], x.v[3] == ref.v[3]))))
	vfReach("end")
}

// H_C13_step_sum: in ANY state related by R the digest equals the reference digest.
func H_C13_step_sum() {
	bufused := vfParam("bufused")
	x, ref := hC13State(bufused)
	got := x.Sum32()
	want := ref.digest()
	vfNote("got", int(got))
	vfNote("total_lo", int(uint32(x.totalLen)))
	vfNote("total_hi", int(x.totalLen>>32))
	// known class D8: short-input formula chosen from the truncated 32-bit total
	inD8 := vfAnd(x.totalLen >= 1<<32, uint32(x.totalLen) < 16)
	vfAssertK("sum32-equals-reference-digest", got == want, "C13-D8-total-truncated-to-32-bits", inD8)
	vfReach("end")
}

// H_C13_base: the zero value and a Reset state satisfy R with the fresh reference state.
func H_C13_base() {
	var z XXHZero
	vfAssert("zero-total", z.totalLen == 0)
	vfAssert("zero-bufused", z.bufused == 0)
	x, _ := hC13State(vfParam("bufused"))
	x.Reset()
	vfAssert("reset-total", x.totalLen == 0)
	vfAssert("reset-bufused", x.bufused == 0)
	vfReach("end")
}

// H_C13_confirm_long (native only): confirms a step_sum counterexample through the
// public API by really writing `total` bytes (zeros, then the tail bytes).
func H_C13_confirm_long() {
	hi := vfParam("total_hi")
	lo := vfParam("total_lo")
	total := uint64(hi)<<32 | uint64(uint32(lo))
	if vfSymbolic() {
		return
	}
	var h XXHZero
	ref := refXXHNew()
	chunk := make([]byte, 1<<20)
	rem := total
	for rem > 0 {
		c := uint64(len(chunk))
		if c > rem {
			c = rem
		}
		h.Write(chunk[:c])
		ref.updateZeros(c)
		rem -= c
	}
	vfAssert("long-stream-equals-reference", h.Sum32() == ref.digest())
	vfReach("end")
}
