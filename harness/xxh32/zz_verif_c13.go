//go:build verif

package xxh32

func init() {
	vfHarnesses["H_C13_oneshot"] = H_C13_oneshot
	vfHarnesses["H_C13_split"] = H_C13_split
	vfHarnesses["H_C13_confirm_long"] = H_C13_confirm_long
	vfHarnesses["H_C13_reset"] = H_C13_reset
}

// H_C13_reset: a state that has hashed n bytes is Reset; what it reports then, without any Write,
// after an empty Write, and after a Write of m bytes, is the reference value of exactly what was
// written since the Reset (nothing of the previous message survives).
func H_C13_reset() {
	n := vfParam("n")
	m := vfParam("m")
	x := vfBytes("x", n)
	y := vfBytes("y", m)
	var h XXHZero
	h.Write(x)
	_ = h.Sum32()
	h.Reset()
	vfAssert("reset-then-sum-is-empty-hash", h.Sum32() == refXXH32(nil))
	s := h.Sum(nil)
	e := refXXH32(nil)
	vfAssert("reset-then-sum-bytes", vfAnd(len(s) == 4, vfAnd(vfAnd(s[0] == byte(e), s[1] == byte(e>>8)), vfAnd(s[2] == byte(e>>16), s[3] == byte(e>>24)))))
	h.Write(nil)
	vfAssert("reset-empty-write-sum", h.Sum32() == refXXH32(nil))
	h.Write(y)
	vfAssert("reset-then-write-sum", h.Sum32() == refXXH32(y))
	vfReach("end")
}

// H_C13_oneshot: ChecksumZero(x) == refXXH32(x) for every x of length n.
func H_C13_oneshot() {
	n := vfParam("n")
	x := vfBytes("x", n)
	got := ChecksumZero(x)
	want := refXXH32(x)
	vfNote("got", int(got))
	vfAssert("oneshot-equals-reference", got == want)
	vfReach("end")
}

// H_C13_split: through the public streaming API, any 3-way split of n bytes.
func H_C13_split() {
	n := vfParam("n")
	k1 := vfParam("k1")
	k2 := vfParam("k2")
	x := vfBytes("x", n)
	var h XXHZero
	h.Write(x[:k1])
	h.Write(x[k1:k2])
	h.Write(x[k2:])
	got := h.Sum32()
	vfNote("got", int(got))
	vfAssert("split-equals-reference", got == refXXH32(x))
	s := h.Sum(nil)
	vfAssert("sum-appends-le32", vfAnd(len(s) == 4, vfAnd(vfAnd(s[0] == byte(got), s[1] == byte(got>>8)), vfAnd(s[2] == byte(got>>16), s[3] == byte(got>>24)))))
	// Reset then reuse gives the one-shot value again
	h.Reset()
	h.Write(x)
	vfAssert("reset-reuse", h.Sum32() == got)
	vfReach("end")
}

// H_C13_confirm_long (native only): confirms a long-stream counterexample through the
// public API by really writing `total` bytes (zeros).
func H_C13_confirm_long() {
	hi := vfParam("total_hi")
	lo := vfParam("total_lo")
	total := uint64(hi)<<32 | uint64(uint32(lo))
	if vfSymbolic() {
		return
	}
	var h XXHZero
	ref := refXXHNew()
	chunk := make([]byte, 1<<20)
	rem := total
	for rem > 0 {
		c := uint64(len(chunk))
		if c > rem {
			c = rem
		}
		h.Write(chunk[:c])
		ref.updateZeros(c)
		rem -= c
	}
	vfAssert("long-stream-equals-reference", h.Sum32() == ref.digest())
	vfReach("end")
}
