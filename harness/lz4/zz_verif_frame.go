//go:build verif

package lz4

import (
	"errors"
	"fmt"
	"io"
)

func init() {
	vfHarnesses["H_frame"] = H_frame
	vfHarnesses["H_frame_det"] = H_frame_det
}

// H_frame_det (C14, sequential part): the same input and options delivered in two different ways
// that do not involve Flush give byte-identical frames.
func H_frame_det() {
	o := hReadOpts()
	in := hInput()
	var a, b hSink
	a.failAt, b.failAt = -1, -1
	za := NewWriter(&a)
	zb := NewWriter(&b)
	vfAssume(za.Apply(o.options()...) == nil)
	vfAssume(zb.Apply(o.options()...) == nil)
	okA := hDeliver(za, in, vfParam("delivA"), vfParam("k"))
	okB := hDeliver(zb, in, vfParam("delivB"), vfParam("k2"))
	vfAssert("fdet-both-succeed", vfAnd(okA, okB))
	vfAssert("fdet-identical-frames", vfEqBytes(a.buf, b.buf))
	vfReach("end")
}

var hErrInjected = errors.New("verif: injected I/O failure")

// hSink is the underlying writer: records bytes, can fail at the failAt-th call (0-based).
type hSink struct {
	buf     []byte
	calls   int
	failAt  int
	after   int // number of calls made after the failing one
	failed  bool
	atFail  int // len(buf) when the failure was injected
}

func (s *hSink) Write(p []byte) (int, error) {
	i := s.calls
	s.calls++
	if s.failed {
		s.after++
	}
	if i == s.failAt {
		s.failed = true
		s.atFail = len(s.buf)
		return 0, hErrInjected
	}
	if s.failed {
		// a well-behaved caller stops after the first failure; keep recording to detect writes after it
		s.buf = append(s.buf, p...)
		return len(p), nil
	}
	s.buf = append(s.buf, p...)
	return len(p), nil
}

// hSource is the underlying reader. mode 0: fill the buffer; 1: one byte per call;
// 2: returns the last bytes together with io.EOF; 3: a zero-length read (0, nil) before each
// chunk, chunks of at most 2 bytes. Fails at the failAt-th call (0-based; <0 never).
type hSource struct {
	data    []byte
	pos     int
	calls   int
	failAt  int
	mode    int
	zero    bool
	failErr error // nil: hErrInjected
}

// hErrWrapsEOF: a source failure that wraps io.EOF (a transport reporting "connection ended: EOF"):
// still a failure, never a clean end.
var hErrWrapsEOF = fmt.Errorf("verif: link down: %w", io.EOF)

func (s *hSource) Read(p []byte) (int, error) {
	i := s.calls
	s.calls++
	if i == s.failAt {
		if s.failErr != nil {
			return 0, s.failErr
		}
		return 0, hErrInjected
	}
	if len(p) == 0 {
		return 0, nil
	}
	rem := len(s.data) - s.pos
	if rem == 0 {
		return 0, io.EOF
	}
	n := len(p)
	switch s.mode {
	case 1:
		n = 1
	case 3:
		if !s.zero {
			s.zero = true
			return 0, nil
		}
		s.zero = false
		if n > 2 {
			n = 2
		}
	}
	if n > rem {
		n = rem
	}
	copy(p, s.data[s.pos:s.pos+n])
	s.pos += n
	if s.mode == 2 && s.pos == len(s.data) {
		return n, io.EOF
	}
	return n, nil
}

func (s *hSource) Close() error { return nil }

var hBlockSizes = []BlockSize{0, 0, 0, 0, Block64Kb, Block256Kb, Block1Mb, Block4Mb}
var hLevels = []CompressionLevel{Fast, Level1, Level2, Level3, Level4, Level5, Level6, Level7, Level8, Level9}

type hOpts struct {
	bs, bc, cc, sizeopt, level, legacy int
	size                               uint64
}

func hReadOpts() hOpts {
	o := hOpts{bs: vfParam("bs"), bc: vfParam("bc"), cc: vfParam("cc"), sizeopt: vfParam("sizeopt"), level: vfParam("level"), legacy: vfParam("legacy")}
	if o.sizeopt == 2 {
		o.size = uint64(vfParam("n")) // concrete: the actual content length
		if o.size == 0 {
			o.sizeopt = 0
		}
	} else if o.sizeopt != 0 {
		o.size = vfU64("size")
		vfAssume(o.size != 0) // SizeOption(0) means "no size"
	}
	return o
}

func (o hOpts) options() []Option {
	opts := []Option{BlockSizeOption(hBlockSizes[o.bs]), BlockChecksumOption(o.bc != 0), ChecksumOption(o.cc != 0), CompressionLevelOption(hLevels[o.level]), ConcurrencyOption(1)}
	if o.sizeopt != 0 {
		opts = append(opts, SizeOption(o.size))
	}
	if o.legacy != 0 {
		opts = append(opts, LegacyOption(true))
	}
	return opts
}

// hInput builds the n input bytes: symbolic, or periodic (compressible) with a symbolic period.
func hInput() []byte {
	n := vfParam("n")
	period := vfParam("period")
	if period == -65536 {
		// concrete incompressible bytes with an exact 64 KiB period: the only redundancy sits at
		// distance 65536, one more than an offset can express
		in := make([]byte, n)
		x := uint32(12345)
		for i := range in {
			if i >= 65536 {
				in[i] = in[i-65536]
				continue
			}
			x = x*1664525 + 1013904223
			in[i] = byte(x >> 24)
		}
		return in
	}
	if period < 0 {
		// concrete content (used where symbolic content would only pose hash-collision searches, and
		// for block-size inputs); period <= -1000: the last two bytes are symbolic
		m := -period
		sym := 0
		if m >= 1000 {
			m -= 1000 - 17
			sym = 2
		}
		in := make([]byte, n)
		for i := range in {
			in[i] = byte(0x61 + (i*7+i/3)%m)
		}
		for i := n - sym; i < n; i++ {
			if i >= 0 {
				in[i] = vfByte("in")
			}
		}
		return in
	}
	if period <= 0 || period >= n {
		return vfBytes("in", n)
	}
	in := make([]byte, 0, n)
	in = append(in, vfBytes("in", period)...)
	for len(in) < n {
		in = append(in, in[len(in)-period])
	}
	return in
}

// hDeliver feeds `in` to the Writer according to the delivery mode and closes it.
// Returns false if some call reported an error.
func hDeliver(zw *Writer, in []byte, deliv, k int) (ok bool) {
	if k > len(in) {
		k = len(in)
	}
	ok = true
	// The Writer gets a private copy: io.Writer forbids modifying the caller's slice, and a Writer that
	// did (say, by appending to a sub-slice of it) must not also alter the content the harness compares with.
	in = append(make([]byte, 0, len(in)+64), in...)
	chk := func(n int, err error, want int) {
		if err != nil || n != want {
			ok = false
		}
	}
	switch deliv {
	case 0:
		n, err := zw.Write(in)
		chk(n, err, len(in))
	case 1:
		n, err := zw.Write(in[:k])
		chk(n, err, k)
		n, err = zw.Write(in[k:])
		chk(n, err, len(in)-k)
	case 2:
		n, err := zw.Write(in[:k])
		chk(n, err, k)
		if zw.Flush() != nil {
			ok = false
		}
		n, err = zw.Write(in[k:])
		chk(n, err, len(in)-k)
	case 3:
		if zw.Flush() != nil {
			ok = false
		}
		n, err := zw.Write(in)
		chk(n, err, len(in))
		if zw.Flush() != nil {
			ok = false
		}
		if zw.Flush() != nil {
			ok = false
		}
	case 4, 5, 6, 7:
		src := &hSource{data: in, failAt: -1, mode: deliv - 4}
		n, err := zw.ReadFrom(src)
		if err != nil || n != int64(len(in)) {
			ok = false
		}
	case 8:
		for i := range in {
			n, err := zw.Write(in[i : i+1])
			chk(n, err, 1)
		}
	}
	if zw.Close() != nil {
		ok = false
	}
	return ok
}

// hReadBack decodes stream with the Reader according to the read-back mode.
// Returns the bytes delivered and the final error (io.EOF for Read, nil for WriteTo = clean end).
func hReadBack(stream []byte, rb int, srcMode int, blockSize int) (out []byte, final error, clean bool) {
	src := &hSource{data: stream, failAt: -1, mode: srcMode}
	zr := NewReader(src)
	if rb == 2 {
		var w hSink
		w.failAt = -1
		_, err := zr.WriteTo(&w)
		return w.buf, err, err == nil
	}
	sizes := []int{blockSize}
	switch rb {
	case 1:
		sizes = []int{3}
	case 3:
		sizes = []int{1, 2, 7, blockSize + 1}
	case 4:
		sizes = []int{blockSize - 1}
	}
	for i := 0; i < 1<<20; i++ {
		buf := make([]byte, sizes[i%len(sizes)])
		n, err := zr.Read(buf)
		out = append(out, buf[:n]...)
		if err != nil {
			if err == io.EOF {
				// the end of the stream is sticky
				n2, err2 := zr.Read(buf)
				vfAssert("rt-eof-is-sticky", vfAnd(n2 == 0, err2 == io.EOF))
			}
			return out, err, err == io.EOF
		}
	}
	vfAssert("rt-read-terminates", false)
	return out, nil, false
}

// H_frame serves C02 (round trip) and C09 (emitted frames conform to the specification).
func H_frame() {
	o := hReadOpts()
	in := hInput()
	deliv := vfParam("deliv")
	k := vfParam("k")
	rb := vfParam("rb")
	var sink hSink
	sink.failAt = -1
	zw := NewWriter(&sink)
	aerr := zw.Apply(o.options()...)
	vfAssert("rt-options-accepted", aerr == nil)
	ok := hDeliver(zw, in, deliv, k)
	vfAssert("rt-writer-no-error", ok)

	if vfParam("spec") == 0 {
		goto readback
	}
	{
	// C09: the emitted bytes are one well-formed frame for an independent parser
	fi := refFrame(sink.buf, true)
	vfAssert("spec-frame-accepted", fi.ok)
	vfAssert("spec-nothing-after-frame", fi.consumed == len(sink.buf))
	vfAssert("spec-content-equals-input", vfEqBytes(fi.content, in))
	if o.legacy == 0 {
		vfAssert("spec-flags", vfAnd(vfAnd(fi.bc == (o.bc != 0), fi.cc == (o.cc != 0)), vfAnd(fi.bsid == o.bs, fi.hasSize == (o.sizeopt != 0))))
		if o.sizeopt != 0 {
			vfAssert("spec-content-size-field", fi.size == o.size)
		}
		for _, bl := range fi.blockLens {
			vfAssert("spec-block-within-maximum", bl <= int(hBlockSizes[o.bs]))
		}
	} else {
		vfAssert("spec-legacy-magic", fi.legacy)
	}
	}
readback:
	// C02: the Reader gives the input back, then a clean end of stream
	bsz := int(hBlockSizes[o.bs])
	if o.legacy != 0 {
		bsz = 8 << 20
	}
	out, _, clean := hReadBack(sink.buf, rb, vfParam("rsrc"), bsz)
	vfAssert("rt-clean-end", clean)
	vfAssert("rt-output-equals-input", vfEqBytes(out, in))
	vfReach("end")
}
