//go:build verif

package lz4

import (
	"errors"
	"io"
)

func init() {
	vfHarnesses["H_trunc"] = H_trunc
	vfHarnesses["H_mutate"] = H_mutate
	vfHarnesses["H_fault_w"] = H_fault_w
	vfHarnesses["H_fault_r"] = H_fault_r
	vfHarnesses["H_stream"] = H_stream
	vfHarnesses["H_repeat"] = H_repeat
}

// H_repeat (C07): k repetitions of one field. kind 0: k legacy magics; kind 1: k empty
// skippable frames; kind 2: legacy magic then k zero-size words. The Reader must terminate with
// a call depth that does not grow with k (natively the tape is replayed with k in the tens of
// millions, where unbounded recursion exhausts the stack).
func H_repeat() {
	k := vfParam("k")
	kind := vfParam("kind")
	var stream []byte
	switch kind {
	case 0:
		for i := 0; i < k; i++ {
			stream = append(stream, 0x02, 0x21, 0x4C, 0x18)
		}
	case 1:
		for i := 0; i < k; i++ {
			stream = append(stream, 0x50, 0x2A, 0x4D, 0x18, 0, 0, 0, 0)
		}
	default:
		stream = append(stream, 0x02, 0x21, 0x4C, 0x18)
		for i := 0; i < k; i++ {
			stream = append(stream, 0x02, 0x21, 0x4C, 0x18)
		}
		stream = append(stream, vfBytes("t", 4)...)
	}
	base := vfCallDepthMax()
	zr := NewReader(&hSource{data: stream, failAt: -1})
	buf := make([]byte, 16)
	done := false
	for i := 0; i < 8 && !done; i++ {
		_, err := zr.Read(buf)
		if err != nil {
			done = true
		}
	}
	vfAssert("repeat-terminates", done)
	vfAssert("repeat-bounded-recursion", vfCallDepthMax()-base <= 24)
	vfReach("end")
}

// hMakeFrame produces a frame image with the real Writer (options and delivery from the
// job parameters, input bytes symbolic) and returns it with the input.
func hMakeFrame() (frame, in []byte, o hOpts) {
	o = hReadOpts()
	in = hInput()
	var sink hSink
	sink.failAt = -1
	zw := NewWriter(&sink)
	if zw.Apply(o.options()...) != nil {
		vfAssume(false)
	}
	ok := hDeliver(zw, in, vfParam("deliv"), vfParam("k"))
	vfAssume(ok)
	return sink.buf, in, o
}

func hIsPrefix(p, full []byte) bool {
	if len(p) > len(full) {
		return false
	}
	return vfEqBytes(p, full[:len(p)])
}

// H_trunc (C06): the frame cut at every position 1..len-1 never reads as complete.
func H_trunc() {
	frame, in, o := hMakeFrame()
	fi := refFrame(frame, true)
	vfAssume(fi.ok)
	var cut int
	if vfParam("cutsel") == 0 {
		cut = 1 + vfChoice("cut", len(frame)-1) // 1 .. len-1
	} else {
		// large frames: every structural boundary (after the header, after each block-size word,
		// after each block's data, after each block checksum, after the end mark) plus and minus three
		cands := hCutCandidates(frame, o)
		cut = cands[vfChoice("cut", len(cands))]
	}
	onBoundary := false
	if o.legacy != 0 {
		// legacy frames have no end mark: a cut on a block boundary is a complete (shorter) frame
		p := 4
		if cut == p {
			onBoundary = true
		}
		q := 4
		for q < len(frame) {
			bl := int(refLE32at(frame, q))
			q += 4 + bl
			if cut == q {
				onBoundary = true
			}
		}
	}
	vfNote("cut", cut)
	out, err, clean := hReadBack(frame[:cut], vfParam("rb"), vfParam("rsrc"), hBlockLen(o))
	vfAssert("trunc-delivered-is-prefix", hIsPrefix(out, in))
	if !onBoundary {
		vfAssert("trunc-not-clean", !clean)
		vfAssert("trunc-error-is-not-eof", vfAnd(err != nil, err != io.EOF))
		vfAssert("trunc-error-does-not-wrap-eof", !errors.Is(err, io.EOF))
	}
	vfReach("end")
}

// hCutCandidates lists the cut positions 1..len-1 within three bytes of a structural boundary of
// a well-formed modern frame (walked with the reference model's field sizes, not the library's).
func hCutCandidates(frame []byte, o hOpts) []int {
	var bounds []int
	p := 7
	if o.sizeopt != 0 {
		p += 8
	}
	bounds = append(bounds, 4, p)
	for p+4 <= len(frame) {
		w := refLE32at(frame, p)
		p += 4
		bounds = append(bounds, p)
		if w == 0 {
			break
		}
		p += int(w & 0x7FFFFFFF)
		bounds = append(bounds, p)
		if o.bc != 0 {
			p += 4
			bounds = append(bounds, p)
		}
	}
	var out []int
	for _, b := range bounds {
		for c := b - 3; c <= b+3; c++ {
			dup := false
			for _, x := range out {
				if x == c {
					dup = true
				}
			}
			if c >= 1 && c <= len(frame)-1 && !dup {
				out = append(out, c)
			}
		}
	}
	return out
}

func hBlockLen(o hOpts) int {
	if o.legacy != 0 {
		return 8 << 20
	}
	return int(hBlockSizes[o.bs])
}

// H_mutate (C05): one byte of a valid frame replaced by an arbitrary different value (at
// every position). If the Reader reports a clean end, the reference parser accepts the
// bytes the Reader consumed and yields the same output.
func H_mutate() {
	frame, _, o := hMakeFrame()
	pos := vfChoice("pos", len(frame))
	// replacement value: the 8 single-bit flips, 0x00, 0xFF and the complement (vals=11), or every
	// other byte value (vals=256). Enumerated rather than symbolic: a symbolic byte under the three
	// XXH32 comparisons gives the solver collision searches it does not finish.
	var v byte
	if vfParam("vals") == 256 {
		v = byte(vfChoice("val", 256))
	} else {
		c := vfChoice("val", 11)
		switch {
		case c < 8:
			v = frame[pos] ^ (1 << uint(c))
		case c == 8:
			v = 0
		case c == 9:
			v = 0xFF
		default:
			v = ^frame[pos]
		}
	}
	vfAssume(v != frame[pos])
	mut := append([]byte{}, frame...)
	mut[pos] = v
	if vfParam("dup") != 0 {
		// block-level edit: append a copy of the frame's bytes after the header (duplicates blocks)
		mut = append(mut, frame[7:]...)
	}
	src := &hSource{data: mut, failAt: -1, mode: vfParam("rsrc")}
	zr := NewReader(src)
	if hStreamNum > 0 {
		vfAssume(zr.Apply(ConcurrencyOption(hStreamNum)) == nil)
	}
	var out []byte
	var err error
	clean := false
	if vfParam("rb") == 2 {
		var w hSink
		w.failAt = -1
		_, err = zr.WriteTo(&w)
		out = w.buf
		clean = err == nil
	} else {
		size := 3
		if vfParam("rb") == 0 {
			size = hBlockLen(o)
		}
		for i := 0; i < 1<<17; i++ {
			buf := make([]byte, size)
			n, e := zr.Read(buf)
			out = append(out, buf[:n]...)
			if e != nil {
				err = e
				clean = e == io.EOF
				break
			}
		}
	}
	if clean {
		hAcceptOracle(mut[:src.pos], out)
	}
	vfReach("end")
}

// hAcceptOracle: the Reader reported a clean end after consuming `consumed` and delivering out.
func hAcceptOracle(consumed, out []byte) {
	content, ok := refStream(consumed)
	if !ok {
		// known finding: the Reader ignores the DictID flag (it does not skip the 4-byte
		// dictionary id, which the specification also covers with the header checksum)
		refIgnoreDictID = true
		c1, ok1 := refStream(consumed)
		refIgnoreDictID = false
		if ok1 {
			vfAssertK("accept-implies-reference-accepts", false, "C05-dictid-flag-ignored", vfEqBytes(out, c1))
			return
		}
		// classify against the known findings: legacy blocks carrying the "stored" flag, and
		// legacy blocks decoded with the previous block as dictionary
		refAllowLegacyRaw, refLegacyDict = true, true
		c2, ok2 := refStream(consumed)
		refAllowLegacyRaw, refLegacyDict = false, false
		inClass := false
		if ok2 {
			inClass = vfEqBytes(out, c2)
		}
		vfAssertK("accept-implies-reference-accepts", false, "C05-legacy-blocks-stored-flag-or-dictionary", inClass)
		return
	}
	vfAssert("accept-same-output", vfEqBytes(out, content))
}

// H_fault_w (C15): the underlying writer fails at its failAt-th call.
func H_fault_w() {
	o := hReadOpts()
	in := hInput()
	deliv := vfParam("deliv")
	k := vfParam("k")
	// fault-free twin
	var good hSink
	good.failAt = -1
	zw0 := NewWriter(&good)
	if zw0.Apply(o.options()...) != nil {
		vfAssume(false)
	}
	vfAssume(hDeliver(zw0, in, deliv, k))
	ncalls := good.calls
	failAt := vfChoice("failAt", ncalls)
	var sink hSink
	sink.failAt = failAt
	zw := NewWriter(&sink)
	zw.Apply(o.options()...)
	ok := hDeliverErr(zw, in, deliv, k)
	vfNote("failAt", failAt)
	vfAssert("wfault-reported", !ok)
	vfAssert("wfault-is-the-injected-error", hLastErr != nil && errors.Is(hLastErr, hErrInjected))
	// what had reached the sink when the failure occurred is a prefix of the fault-free output
	// (the statement does not constrain what a caller who keeps going after an error gets)
	vfAssert("wfault-sink-holds-prefix", hIsPrefix(sink.buf[:sink.atFail], good.buf))
	vfReach("end")
}

var hLastErr error

// hDeliverErr is hDeliver that stops at the first error and remembers it (Close is still called).
func hDeliverErr(zw *Writer, in []byte, deliv, k int) bool {
	hLastErr = nil
	if k > len(in) {
		k = len(in)
	}
	note := func(err error) bool {
		if err != nil && hLastErr == nil {
			hLastErr = err
		}
		return err != nil
	}
	failed := false
	switch deliv {
	case 0:
		_, err := zw.Write(in)
		failed = note(err)
	case 1:
		_, err := zw.Write(in[:k])
		if failed = note(err); !failed {
			_, err = zw.Write(in[k:])
			failed = note(err)
		}
	case 2:
		_, err := zw.Write(in[:k])
		if failed = note(err); !failed {
			if failed = note(zw.Flush()); !failed {
				_, err = zw.Write(in[k:])
				failed = note(err)
			}
		}
	case 3:
		if failed = note(zw.Flush()); !failed {
			_, err := zw.Write(in)
			if failed = note(err); !failed {
				failed = note(zw.Flush())
			}
		}
	default:
		src := &hSource{data: in, failAt: -1, mode: 0}
		_, err := zw.ReadFrom(src)
		failed = note(err)
	}
	if note(zw.Close()) {
		failed = true
	}
	return !failed
}

// H_fault_r (C15): the underlying reader fails at its failAt-th call, or fragments its reads.
func H_fault_r() {
	frame, in, o := hMakeFrame()
	// reference run: count the source calls
	ref := &hSource{data: frame, failAt: -1, mode: vfParam("rsrc")}
	zr0 := NewReader(ref)
	out0, clean0 := hDrain(zr0, vfParam("rb"), hBlockLen(o))
	vfAssert("rfrag-clean", clean0)
	vfAssert("rfrag-output", vfEqBytes(out0, in))
	failAt := vfChoice("failAt", ref.calls)
	vfNote("failAt", failAt)
	src := &hSource{data: frame, failAt: failAt, mode: vfParam("rsrc")}
	injected := hErrInjected
	if vfParam("ekind") == 1 {
		// the failure wraps io.EOF: it must still come back as that failure, not as the end
		src.failErr = hErrWrapsEOF
		injected = hErrWrapsEOF
	}
	zr := NewReader(src)
	out, clean := hDrain(zr, vfParam("rb"), hBlockLen(o))
	vfAssert("rfault-not-clean", !clean)
	vfAssert("rfault-is-the-injected-error", hLastErr != nil && errors.Is(hLastErr, injected))
	if vfParam("ekind") == 0 {
		vfAssert("rfault-never-eof", hLastErr != io.EOF && !errors.Is(hLastErr, io.EOF))
	} else {
		vfAssert("rfault-never-eof", hLastErr != io.EOF)
	}
	vfAssert("rfault-delivered-is-prefix", hIsPrefix(out, in))
	vfReach("end")
}

func hDrain(zr *Reader, rb, blockSize int) (out []byte, clean bool) {
	hLastErr = nil
	if rb == 2 {
		var w hSink
		w.failAt = -1
		_, err := zr.WriteTo(&w)
		hLastErr = err
		return w.buf, err == nil
	}
	size := 3
	if rb == 0 {
		size = blockSize
	}
	for i := 0; i < 1<<17; i++ {
		buf := make([]byte, size)
		n, err := zr.Read(buf)
		out = append(out, buf[:n]...)
		if err != nil {
			hLastErr = err
			return out, err == io.EOF
		}
	}
	return out, false
}

// H_stream (C07 / C05): an arbitrary byte string as compressed stream.
func H_stream() {
	n := vfParam("n")
	var stream []byte
	switch vfParam("shape") {
	case 0: // fully arbitrary
		stream = vfBytes("s", n)
	case 1: // frame magic + arbitrary rest
		stream = append([]byte{0x04, 0x22, 0x4D, 0x18}, vfBytes("s", n)...)
	case 2: // legacy magic + arbitrary rest
		stream = append([]byte{0x02, 0x21, 0x4C, 0x18}, vfBytes("s", n)...)
	case 3: // a skippable frame with arbitrary magic nibble and length, then arbitrary bytes
		stream = append([]byte{0x50 | vfByte("nib")&0x0F, 0x2A, 0x4D, 0x18}, vfBytes("s", n)...)
	case 4: // valid minimal header (64 KiB blocks, no checksums) + arbitrary block area
		stream = append([]byte{0x04, 0x22, 0x4D, 0x18, 0x60, 0x40, 0x82}, vfBytes("s", n)...)
	case 5: // valid header with block + content checksums
		stream = append([]byte{0x04, 0x22, 0x4D, 0x18, 0x74, 0x40, 0xBD}, vfBytes("s", n)...)
	}
	src := &hSource{data: stream, failAt: -1, mode: vfParam("rsrc")}
	zr := NewReader(src)
	if hStreamNum > 0 {
		vfAssume(zr.Apply(ConcurrencyOption(hStreamNum)) == nil)
	}
	var out []byte
	var err error
	clean := false
	if vfParam("rb") == 2 {
		var w hSink
		w.failAt = -1
		_, err = zr.WriteTo(&w)
		out = w.buf
		clean = err == nil
	} else {
		size := 3
		if vfParam("rb") == 0 {
			size = 65536
		}
		done := false
		// a few stream bytes can decode to a whole 64 KiB block (long matches): allow that many reads
		for i := 0; i < 1<<17 && !done; i++ {
			buf := make([]byte, size)
			k, e := zr.Read(buf)
			out = append(out, buf[:k]...)
			if e != nil {
				err = e
				clean = e == io.EOF
				done = true
			}
		}
		vfAssert("stream-read-terminates", done)
	}
	// C07: first word not a magic -> invalid frame
	if len(stream) >= 4 {
		m := refLE32at(stream, 0)
		isMagic := vfOr(vfOr(m == 0x184D2204, m == 0x184C2102), m&0xFFFFFFF0 == 0x184D2A50)
		if !isMagic {
			vfAssert("stream-non-magic-is-invalid-frame", vfAnd(!clean, errors.Is(err, ErrInvalidFrame)))
		}
	}
	if hStreamNum > 1 {
		// C08: the end of the stream or an error has been reported, nothing stays behind
		vfAssert("conc-r-no-goroutine-leak", vfSettle() == 0)
	}
	// C05: a clean end implies the reference parser accepts what was consumed, same output
	if clean {
		hAcceptOracle(stream[:src.pos], out)
	}
	vfReach("end")
}
