//go:build verif

package lz4

import (
	"bytes"
	"io"
)

func init() {
	vfHarnesses["H_C19_header"] = H_C19_header
	vfHarnesses["H_C19_magic"] = H_C19_magic
}

// hC19Expect computes, from the specification, whether a header is acceptable in
// the sense of C19: checksum byte correct and block-size code in {4,5,6,7}.
func hC19Expect(desc []byte, ck byte) (ckOK, bsOK bool) {
	want := byte(refXXH32(desc) >> 8)
	idx := (desc[1] >> 4) & 7
	return ck == want, vfAnd(idx >= 4, idx <= 7)
}

// H_C19_header: magic fixed to the frame magic; FLG, BD, 8 size bytes and the
// checksum byte are symbolic: all 2^16 x 2^64 x 2^8 headers in one run.
func H_C19_header() {
	hdr := []byte{0x04, 0x22, 0x4D, 0x18}
	hdr = append(hdr, vfBytes("desc", 2)...)
	rest := vfBytes("rest", 9)
	hdr = append(hdr, rest...)
	sizeFlag := hdr[4]&0x08 != 0
	var desc []byte
	var ck byte
	var size uint64
	if sizeFlag { // fork on the layout
		desc = hdr[4:14]
		ck = hdr[14]
		for i := 7; i >= 0; i-- {
			size = size<<8 | uint64(hdr[6+i])
		}
	} else {
		desc = hdr[4:6]
		ck = hdr[6]
		hdr = hdr[:7]
	}
	ckOK, bsOK := hC19Expect(desc, ck)

	ok, err := ValidFrameHeader(hdr)
	if ckOK { // forks: keeps each path's obligations simple
		if bsOK {
			vfAssert("valid-accepts", vfAnd(ok, err == nil))
		} else {
			vfAssert("valid-rejects-bad-blocksize", vfAnd(!ok, err != nil))
			vfAssert("valid-blocksize-error-kind", vfErrIs(err, ErrOptionInvalidBlockSize))
			vfAssert("valid-blocksize-error-distinct", !vfErrIs(err, ErrInvalidHeaderChecksum))
		}
	} else {
		vfAssert("valid-rejects-bad-checksum", vfAnd(!ok, err != nil))
		vfAssert("valid-checksum-error-kind", vfErrIs(err, ErrInvalidHeaderChecksum))
		vfAssert("valid-checksum-error-distinct", !vfErrIs(err, ErrOptionInvalidBlockSize))
	}

	// The Reader on header + end mark (+ content checksum of the empty content).
	stream := append(append([]byte{}, hdr...), 0, 0, 0, 0, 0x05, 0x5D, 0xCC, 0x02)
	zr := NewReader(bytes.NewReader(stream))
	buf := make([]byte, 8)
	n, rerr := zr.Read(buf)
	if ckOK {
		if bsOK {
			vfAssert("reader-accepts", vfAnd(n == 0, rerr == io.EOF))
			if sizeFlag {
				vfAssert("reader-size-faithful", uint64(zr.Size()) == size)
			} else {
				vfAssert("reader-size-zero", zr.Size() == 0)
			}
		} else {
			vfAssert("reader-rejects-bad-blocksize", vfAnd(n == 0, vfErrIs(rerr, ErrOptionInvalidBlockSize)))
		}
	} else {
		vfAssert("reader-rejects-bad-checksum", vfAnd(n == 0, vfErrIs(rerr, ErrInvalidHeaderChecksum)))
	}
	vfReach("end")
}

// H_C19_magic: symbolic first word. A word that is neither the frame magic, the
// legacy magic nor one of the sixteen skippable magics is "not an LZ4 header":
// ValidFrameHeader returns (false, nil) and the Reader reports ErrInvalidFrame.
func H_C19_magic() {
	in := vfBytes("in", 12)
	m := uint32(in[0]) | uint32(in[1])<<8 | uint32(in[2])<<16 | uint32(in[3])<<24
	isMagic := vfOr(vfOr(m == 0x184D2204, m == 0x184C2102), m&0xFFFFFFF0 == 0x184D2A50)
	vfAssume(!isMagic)
	ok, err := ValidFrameHeader(in)
	vfAssert("non-magic-false-without-error", vfAnd(!ok, err == nil))
	zr := NewReader(bytes.NewReader(in))
	n, rerr := zr.Read(make([]byte, 4))
	vfAssert("reader-invalid-frame", vfAnd(n == 0, vfErrIs(rerr, ErrInvalidFrame)))
	vfReach("end")
}
