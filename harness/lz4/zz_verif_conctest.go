//go:build verif

package lz4

import "sync"

// Known-answer programs for the goroutine/channel/mutex model and the race detector of the
// executor (vcheck selftest-conc): each has a fixed expected verdict.

func init() {
	vfHarnesses["H_ct_pingpong"] = H_ct_pingpong
	vfHarnesses["H_ct_race"] = H_ct_race
	vfHarnesses["H_ct_deadlock"] = H_ct_deadlock
	vfHarnesses["H_ct_order"] = H_ct_order
	vfHarnesses["H_ct_leak"] = H_ct_leak
	vfHarnesses["H_ct_buffered"] = H_ct_buffered
	vfHarnesses["H_ct_mutex"] = H_ct_mutex
	vfHarnesses["H_ct_pipeline"] = H_ct_pipeline
	vfHarnesses["H_ct_closerace"] = H_ct_closerace
}

// no race, no deadlock: result is deterministic
func H_ct_pingpong() {
	a := make(chan int)
	b := make(chan int)
	x := int(vfByte("x"))
	go func() {
		v := <-a
		b <- v + 1
	}()
	a <- x
	r := <-b
	vfAssert("ct-pingpong", r == x+1)
	vfAssert("ct-pingpong-noleak", vfSettle() == 0)
	vfReach("end")
}

// two unsynchronised writes: a data race in every schedule
func H_ct_race() {
	x := 0
	done := make(chan bool)
	go func() {
		x = 1
		done <- true
	}()
	x = 2
	<-done
	_ = x
	vfReach("end")
}

// main waits for a message nobody sends
func H_ct_deadlock() {
	c := make(chan int)
	d := make(chan int)
	go func() {
		<-d
	}()
	<-c
	vfReach("end")
}

// the assertion fails only when the second goroutine runs before the first (needs one delay)
func H_ct_order() {
	var mu sync.Mutex
	var order []int
	done := make(chan bool, 2)
	for i := 1; i <= 2; i++ {
		go func(i int) {
			mu.Lock()
			order = append(order, i)
			mu.Unlock()
			done <- true
		}(i)
	}
	<-done
	<-done
	mu.Lock()
	ok := len(order) == 2 && order[0] == 1
	mu.Unlock()
	vfAssert("ct-order", ok)
	vfReach("end")
}

// one goroutine stays blocked for ever
func H_ct_leak() {
	c := make(chan int)
	go func() {
		c <- 1
	}()
	go func() {}()
	n := vfSettle()
	vfAssert("ct-leak", n == 0)
	vfReach("end")
}

// buffered channel: the send happens before the receive, so the write to x is ordered
func H_ct_buffered() {
	x := 0
	c := make(chan bool, 1)
	go func() {
		x = 7
		c <- true
	}()
	<-c
	vfAssert("ct-buffered", x == 7)
	vfReach("end")
}

// counter protected by a mutex; close() publishes
func H_ct_mutex() {
	var mu sync.Mutex
	n := 0
	c := make(chan struct{})
	d := make(chan struct{})
	go func() {
		mu.Lock()
		n++
		mu.Unlock()
		close(c)
	}()
	go func() {
		mu.Lock()
		n++
		mu.Unlock()
		close(d)
	}()
	<-c
	<-d
	mu.Lock()
	v := n
	mu.Unlock()
	vfAssert("ct-mutex", v == 2)
	vfReach("end")
}

// a chan-of-chan ordering pipeline of the shape the library uses: results come out in order
func H_ct_pipeline() {
	q := make(chan chan int, 2)
	var out []int
	fin := make(chan bool)
	go func() {
		for c := range q {
			v := <-c
			if v < 0 {
				close(c)
				break
			}
			out = append(out, v)
			close(c)
		}
		fin <- true
	}()
	for i := 0; i < 3; i++ {
		c := make(chan int)
		q <- c
		go func(c chan int, i int) {
			c <- i * 10
			<-c
		}(c, i)
	}
	c := make(chan int)
	q <- c
	c <- -1
	<-c
	<-fin
	vfAssert("ct-pipeline", len(out) == 3 && out[0] == 0 && out[1] == 10 && out[2] == 20)
	vfAssert("ct-pipeline-noleak", vfSettle() == 0)
	vfReach("end")
}

// the worker reads x after its channel was closed by main, main writes x after close: race
func H_ct_closerace() {
	x := 0
	c := make(chan int)
	done := make(chan bool)
	go func() {
		<-c
		_ = x
		done <- true
	}()
	close(c)
	x = 1
	<-done
	vfReach("end")
}
