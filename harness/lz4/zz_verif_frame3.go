//go:build verif

package lz4

import (
	"errors"
	"io"
)

func init() {
	vfHarnesses["H_creader"] = H_creader
	vfHarnesses["H_life_w"] = H_life_w
	vfHarnesses["H_life_wc"] = H_life_wc
	vfHarnesses["H_life_rc"] = H_life_rc
	vfHarnesses["H_life_r"] = H_life_r
	vfHarnesses["H_life_w2"] = H_life_w2
	vfHarnesses["H_dep"] = H_dep
}

// H_creader (C18): the compressing reader under every sequence of buffer sizes.
func H_creader() {
	o := hReadOpts()
	in := hInput()
	failAt := -1
	if vfParam("fail") != 0 {
		failAt = vfChoice("failAt", 4)
	}
	src := &hSource{data: in, failAt: failAt, mode: vfParam("rsrc")}
	zr := NewCompressingReader(src)
	opts := []Option{BlockSizeOption(hBlockSizes[o.bs]), BlockChecksumOption(o.bc != 0), ChecksumOption(o.cc != 0), CompressionLevelOption(hLevels[o.level])}
	if o.sizeopt != 0 {
		opts = append(opts, SizeOption(o.size))
	}
	vfAssert("cr-options-accepted", zr.Apply(opts...) == nil)
	sizes := []int{0, 1, 3, 6, 7, 8, 40, 70000}
	if len(in) > 65536 {
		// multi-block source: make the buffer sizes that end exactly at the end of the first
		// compressed block (header + size word + block [+ checksum]) part of the choice
		var probe hSink
		probe.failAt = -1
		zw := NewWriter(&probe)
		zw.Apply(append(o.options(), ConcurrencyOption(1))...)
		zw.Write(in[:65536])
		zw.Flush()
		end := len(probe.buf)
		sizes = []int{end - 1, end, end + 1, 100, 70000}
	}
	R := vfParam("R")
	var out []byte
	done := false
	var ferr error
	for i := 0; i < 1<<14 && !done; i++ {
		sz := 64
		if i < R {
			sz = sizes[vfChoice("sz", len(sizes))]
		}
		p := make([]byte, sz)
		n, err := zr.Read(p)
		vfAssert("cr-count-in-range", vfAnd(n >= 0, n <= len(p)))
		k := vfConc(n)
		vfAssume(k >= 0)
		vfAssume(k <= len(p))
		if err == nil {
			if len(p) > 0 {
				vfAssert("cr-progress", k > 0)
			}
		}
		out = append(out, p[:k]...)
		if err != nil {
			done = true
			ferr = err
		}
	}
	vfAssert("cr-terminates", done)
	if failAt >= 0 && src.calls > failAt {
		vfAssert("cr-source-error-passed-through", errors.Is(ferr, hErrInjected))
	} else {
		vfAssert("cr-ends-with-eof", ferr == io.EOF)
		fi := refFrame(out, true)
		vfAssert("cr-one-valid-frame", vfAnd(fi.ok, fi.consumed == len(out)))
		vfAssert("cr-decodes-to-source", vfEqBytes(fi.content, in))
		vfAssert("cr-reflects-options", vfAnd(vfAnd(fi.bc == (o.bc != 0), fi.cc == (o.cc != 0)), vfAnd(fi.bsid == o.bs, fi.hasSize == (o.sizeopt != 0))))
		if o.sizeopt != 0 {
			vfAssert("cr-content-size", fi.size == o.size)
		}
		// after the end: keeps returning an error, no more bytes
		n2, err2 := zr.Read(make([]byte, 8))
		vfAssert("cr-nothing-after-eof", vfAnd(n2 == 0, err2 != nil))
	}
	vfReach("end")
}

// ---------- C17: lifecycle ----------

// H_life_w: a sequence of L calls on a Writer, each opcode chosen symbolically, compared after
// every call with the reference model of the statement.
// hLifeNum: concurrency level of the Writer in H_life_w (0 = sequential). On a concurrent
// Writer the sink is only looked at when no library goroutine can be writing to it (after Close,
// after Reset), and the sequential-only Flush clause is not asserted.
var hLifeNum int

// H_life_rc is H_life_r on a concurrent Reader.
func H_life_rc() {
	hLifeNum = vfParam("num")
	H_life_r()
	hLifeNum = 0
}

// H_life_wc is H_life_w on a concurrent Writer (C17 "on sequential and concurrent objects").
func H_life_wc() {
	hLifeNum = vfParam("num")
	H_life_w()
	hLifeNum = 0
}

func H_life_w() {
	L := vfParam("L")
	bc0 := vfParam("bc") != 0
	sinks := []*hSink{{failAt: -1}, {failAt: -1}, {failAt: -1}, {failAt: -1}, {failAt: -1}, {failAt: -1}}
	cur := 0
	zw := NewWriter(sinks[0])
	num := 1
	conc := hLifeNum > 1
	if conc {
		num = hLifeNum
		// optionally the first sink fails at call `sfail`: whatever the calls then report, every
		// one of them must return, and Reset must give a working Writer again
		if sf := vfParam("sfail"); sf >= 0 {
			sinks[0].failAt = sf
		}
	}
	vfAssert("w-initial-apply", zw.Apply(BlockSizeOption(Block64Kb), BlockChecksumOption(bc0), ChecksumOption(true), ConcurrencyOption(num)) == nil)
	// model
	phase := 0 // 0 fresh (nothing written since Reset), 1 open, 2 closed
	var accepted []byte
	bc := bc0
	mark := 0 // len(sink) at the last Reset on this sink
	// A rejected Apply (options after the first write) may leave the object failed: the statement
	// fixes only that the option does not take effect. From then on calls may fail; once one
	// does, the object is treated as failed until the next Reset and only "returns, no panic"
	// is required of it.
	tainted, failed := false, false
	for step := 0; step < L; step++ {
		op := vfChoice("op", 7)
		sink := sinks[cur]
		// flaky: the current sink is the one that fails at some call: errors are then legitimate
		flaky := conc && sink.failAt >= 0
		// quiet: no library goroutine can be touching the sink right now
		quiet := !conc || phase != 1
		before := 0
		if quiet {
			before = len(sink.buf)
		}
		switch op {
		case 0: // Apply(BlockChecksumOption(!bc))
			err := zw.Apply(BlockChecksumOption(!bc))
			if failed {
				break
			}
			if phase == 0 && !tainted {
				vfAssert("w-apply-before-write-ok", err == nil)
				if err == nil {
					bc = !bc
				}
			} else if !tainted {
				vfAssert("w-apply-after-write-rejected", err != nil)
				tainted = true
			}
			if quiet {
				vfAssert("w-apply-emits-nothing", len(sink.buf) == before)
			}
		case 1: // Write
			d := vfBytes("d", 2)
			n, err := zw.Write(d)
			if failed {
				break
			}
			if phase == 2 {
				vfAssert("w-write-after-close-fails", vfAnd(err != nil, n == 0))
				vfAssert("w-write-after-close-no-output", len(sink.buf) == before)
				failed = true // a failed call: nothing more is promised until Reset
			} else if (tainted || flaky) && err != nil {
				failed = true
			} else {
				vfAssert("w-write-ok", vfAnd(err == nil, n == 2))
				accepted = append(accepted, d...)
				phase = 1
			}
		case 2: // ReadFrom
			d := vfBytes("r", 1)
			n, err := zw.ReadFrom(&hSource{data: d, failAt: -1})
			if failed {
				break
			}
			if phase == 2 {
				vfAssert("w-readfrom-after-close-fails", vfAnd(err != nil, n == 0))
				vfAssert("w-readfrom-after-close-no-output", len(sink.buf) == before)
				failed = true
			} else if (tainted || flaky) && err != nil {
				failed = true
			} else {
				vfAssert("w-readfrom-ok", vfAnd(err == nil, n == 1))
				accepted = append(accepted, d...)
				phase = 1
			}
		case 3: // Flush
			err := zw.Flush()
			if failed {
				break
			}
			if (tainted || flaky) && err != nil {
				failed = true
			} else if phase != 2 && conc {
				vfAssert("w-flush-ok", err == nil)
				phase = 1
			} else if phase != 2 {
				vfAssert("w-flush-ok", err == nil)
				// decodable prefix containing everything written so far
				refAllowOpen = true
				fi := refFrame(sink.buf[mark:], true)
				refAllowOpen = false
				vfAssert("w-flush-decodable-prefix", fi.ok)
				vfAssert("w-flush-holds-everything", vfEqBytes(fi.content, accepted))
				phase = 1 // Flush writes the header: the frame is open
			} else {
				vfAssert("w-flush-after-close-no-output", len(sink.buf) == before)
			}
		case 4: // Close
			err := zw.Close()
			if failed {
				break
			}
			if conc && sink.failed {
				// the sink failed under this frame: whether and where that is reported is C15's
				// concern; here the calls only have to return until the next Reset
				failed = true
			} else if (tainted || flaky) && err != nil {
				failed = true
			} else if phase == 2 {
				vfAssert("w-second-close-emits-nothing", len(sink.buf) == before)
			} else {
				vfAssert("w-close-ok", err == nil)
				fi := refFrame(sink.buf[mark:], true)
				vfAssert("w-close-one-frame", vfAnd(fi.ok, fi.consumed == len(sink.buf)-mark))
				vfAssert("w-close-exactly-once-in-order", vfEqBytes(fi.content, accepted))
				vfAssert("w-close-options-persist", fi.bc == bc)
				phase = 2
			}
		case 5: // Reset(new sink)
			cur++
			zw.Reset(sinks[cur])
			if quiet {
				vfAssert("w-reset-no-access-old", len(sink.buf) == before)
			}
			vfAssert("w-reset-no-access-new", len(sinks[cur].buf) == 0)
			phase, accepted, mark, tainted, failed = 0, nil, 0, false, false
		case 6: // Reset(same sink)
			zw.Reset(sink)
			if quiet {
				vfAssert("w-reset-no-access", len(sink.buf) == before)
			}
			phase, accepted, mark, tainted, failed = 0, nil, len(sink.buf), false, false
		}
	}
	vfReach("end")
}

// H_life_r: a sequence of L calls on a Reader over a source holding a valid frame followed by
// trailing bytes.
func H_life_r() {
	L := vfParam("L")
	o := hReadOpts()
	frame, in, _ := hMakeFrameOpts(o)
	trail := vfBytes("trail", vfParam("trail"))
	// a second frame with the same content but the content-size option toggled: Reset alternates
	// between the two, so that nothing of the previous frame's header may survive a Reset
	o2 := o
	if o.sizeopt != 0 {
		o2.sizeopt, o2.size = 0, 0
	} else {
		o2.sizeopt, o2.size = 1, 77
	}
	var sink2 hSink
	sink2.failAt = -1
	zw2 := NewWriter(&sink2)
	vfAssume(zw2.Apply(o2.options()...) == nil)
	vfAssume(hDeliver(zw2, in, vfParam("deliv"), vfParam("k")))
	frame1 := frame
	frame2 := sink2.buf
	o1 := o
	which := 0
	mk := func() *hSource {
		f := frame1
		if which == 1 {
			f = frame2
		}
		return &hSource{data: append(append([]byte{}, f...), trail...), failAt: -1}
	}
	src := mk()
	zr := NewReader(src)
	if hLifeNum > 1 {
		vfAssume(zr.Apply(ConcurrencyOption(hLifeNum)) == nil)
	}
	delivered := 0
	ended := false
	started := false
	endPos := 0
	// broken: a WriteTo whose destination failed has left the Reader failed; until the next Reset
	// calls only have to return
	broken := false
	nops := 6
	if hLifeNum > 1 {
		nops = 7 // the concurrent Reader also gets "WriteTo into a failing destination"
	}
	for step := 0; step < L; step++ {
		op := vfChoice("op", nops)
		if broken && op != 4 {
			// any call on a failed Reader: must return, nothing else is promised
			switch op {
			case 2, 6:
				var w hSink
				w.failAt = -1
				zr.WriteTo(&w)
			case 3:
				zr.Size()
			default:
				zr.Read(make([]byte, 3))
			}
			continue
		}
		switch op {
		case 6: // WriteTo into a destination that fails at its first call
			var w hSink
			w.failAt = 0
			_, err := zr.WriteTo(&w)
			if ended {
				vfAssert("r-eof-consumes-nothing", src.pos == endPos)
			} else if err != nil {
				broken = true
			} else {
				// nothing was left to write: that was the end of the stream
				vfAssert("r-writeto-nothing-left", delivered == len(in))
				ended = true
				started = true
				endPos = src.pos
			}
		case 0, 1, 5: // Read small / big / empty buffer
			size := 3
			if op == 1 {
				size = hBlockLen(o)
			}
			if op == 5 {
				size = 0
			}
			buf := make([]byte, size)
			n, err := zr.Read(buf)
			k := vfConc(n)
			vfAssume(k >= 0)
			vfAssume(k <= size)
			if ended {
				vfAssert("r-eof-sticky", vfAnd(k == 0, vfOr(err == io.EOF, size == 0)))
				vfAssert("r-eof-consumes-nothing", src.pos == endPos)
			} else {
				vfAssert("r-read-error-free", vfOr(err == nil, err == io.EOF))
				vfAssert("r-read-delivers-content", delivered+k <= len(in) && vfEqBytes(buf[:k], in[delivered:delivered+k]))
				delivered += k
				if size > 0 {
					started = true
				}
				if err == io.EOF {
					vfAssert("r-eof-only-at-end", delivered == len(in))
					ended = true
					endPos = src.pos
				}
			}
		case 2: // WriteTo
			var w hSink
			w.failAt = -1
			_, err := zr.WriteTo(&w)
			if ended {
				vfAssert("r-writeto-after-end-delivers-nothing", len(w.buf) == 0)
				vfAssert("r-eof-consumes-nothing", src.pos == endPos)
			} else {
				vfAssert("r-writeto-ok", err == nil)
				vfAssert("r-writeto-delivers-rest", vfEqBytes(w.buf, in[delivered:]))
				delivered = len(in)
				ended = true
				started = true
				endPos = src.pos
			}
		case 3: // Size
			sz := zr.Size()
			hasSize := o.sizeopt != 0 && o.legacy == 0 // a legacy frame has no content-size field
			if started && hasSize {
				vfAssert("r-size-faithful", uint64(sz) == o.size)
			}
			if !hasSize {
				vfAssert("r-size-zero-when-absent", sz == 0)
			}
		case 4: // Reset(new source holding the other frame)
			which = 1 - which
			if which == 1 {
				o = o2
			} else {
				o = o1
			}
			src = mk()
			zr.Reset(src)
			vfAssert("r-reset-no-access", src.pos == 0)
			delivered, ended, started, endPos = 0, false, false, 0
			broken = false
		}
	}
	vfReach("end")
}

func hMakeFrameOpts(o hOpts) (frame, in []byte, oo hOpts) {
	in = hInput()
	var sink hSink
	sink.failAt = -1
	zw := NewWriter(&sink)
	if zw.Apply(o.options()...) != nil {
		vfAssume(false)
	}
	vfAssume(hDeliver(zw, in, vfParam("deliv"), vfParam("k")))
	return sink.buf, in, o
}

// ---------- C16: dependent blocks, independent encoder ----------

func hFill(n, seed int) []byte {
	b := make([]byte, n)
	x := uint32(seed)*2654435761 + 12345
	for i := range b {
		x = x*1664525 + 1013904223
		b[i] = byte(x >> 24)
	}
	return b
}

func hAppendLE32(b []byte, v uint32) []byte {
	return append(b, byte(v), byte(v>>8), byte(v>>16), byte(v>>24))
}

// hSeqBlock assembles one compressed block: lits literals then a match (off, mlen >= 4), then
// the final literals tail (at least 5 literal bytes at the end for strict validity).
func hSeqBlock(lits []byte, off, mlen int, tail []byte) []byte {
	var b []byte
	tok := byte(0)
	ll := len(lits)
	if ll >= 15 {
		tok = 0xF0
	} else {
		tok = byte(ll << 4)
	}
	ml := mlen - 4
	if ml >= 15 {
		tok |= 0x0F
	} else {
		tok |= byte(ml)
	}
	b = append(b, tok)
	if ll >= 15 {
		r := ll - 15
		for ; r >= 255; r -= 255 {
			b = append(b, 255)
		}
		b = append(b, byte(r))
	}
	b = append(b, lits...)
	b = append(b, byte(off), byte(off>>8))
	if ml >= 15 {
		r := ml - 15
		for ; r >= 255; r -= 255 {
			b = append(b, 255)
		}
		b = append(b, byte(r))
	}
	b = append(b, hLitOnly(tail)...)
	return b
}

func hLitOnly(l []byte) []byte {
	var b []byte
	if len(l) >= 15 {
		b = append(b, 0xF0)
		r := len(l) - 15
		for ; r >= 255; r -= 255 {
			b = append(b, 255)
		}
		b = append(b, byte(r))
	} else {
		b = append(b, byte(len(l)<<4))
	}
	return append(b, l...)
}

// H_dep (C16): a hand-built frame with BlockIndependence = 0. Layout "lay" selects the sizes of
// the preceding blocks; the last block S is compressed and its match reaches `off` bytes back
// across those blocks; the bytes the match reads are symbolic.
func H_dep() {
	lay := vfParam("lay")
	var sizes []int
	switch lay {
	case 0:
		sizes = []int{3, 5}
	case 1:
		sizes = []int{40000, 40000}
	case 2:
		sizes = []int{65536, 1}
	case 3:
		sizes = []int{65536, 65536, 1}
	case 4:
		sizes = []int{40000, 40000, 40000, 40000}
	case 5:
		sizes = []int{70000}
	}
	cc := vfParam("cc") != 0
	bsid := 4
	for _, s := range sizes {
		if s > 65536 {
			bsid = 5
		}
	}
	total := 0
	for _, s := range sizes {
		total += s
	}
	offSel := vfParam("off")
	mlen := vfParam("mlen")
	var off int
	switch offSel {
	case 0:
		off = 1
	case 1:
		off = sizes[len(sizes)-1]
	case 2:
		off = sizes[len(sizes)-1] + 1
	case 3:
		off = 65534
	case 4:
		off = 65535
	default:
		off = total
	}
	lits := 2
	if off > total+lits {
		off = total + lits
	}
	if off > 65535 {
		off = 65535
	}
	// content of the preceding blocks: concrete filler with symbolic bytes where the match reads
	content := hFill(total, lay+1)
	litBytes := vfBytes("lit", lits)
	start := total + lits - off // position the match starts reading
	for i := 0; i < mlen+2; i++ {
		p := start + i - 1
		if p >= 0 && p < total {
			content[p] = vfByte("w")
		}
	}
	tail := vfBytes("tail", 5)
	// expected output
	want := append([]byte{}, content...)
	want = append(want, litBytes...)
	for i := 0; i < mlen; i++ {
		want = append(want, want[len(want)-off])
	}
	want = append(want, tail...)
	// assemble the frame
	flg := byte(0x40)
	if cc {
		flg |= 0x04
	}
	bd := byte(bsid << 4)
	frame := []byte{0x04, 0x22, 0x4D, 0x18, flg, bd}
	frame = append(frame, byte(refXXH32(frame[4:6])>>8))
	pos := 0
	for bi, s := range sizes {
		blk := content[pos : pos+s]
		if enc := hLitOnly(blk); vfParam("rawmix") != 0 && bi%2 == 1 && len(enc) <= refBlockMax(bsid) {
			// as a compressed block made of literals only
			frame = hAppendLE32(frame, uint32(len(enc)))
			frame = append(frame, enc...)
		} else {
			frame = hAppendLE32(frame, uint32(s)|0x80000000)
			frame = append(frame, blk...)
		}
		pos += s
	}
	sb := hSeqBlock(litBytes, off, mlen, tail)
	frame = hAppendLE32(frame, uint32(len(sb)))
	frame = append(frame, sb...)
	frame = hAppendLE32(frame, 0)
	if cc {
		frame = hAppendLE32(frame, refXXH32(want))
	}
	// decode with the Reader
	src := &hSource{data: frame, failAt: -1, mode: vfParam("rsrc")}
	zr := NewReader(src)
	if vfParam("conc") != 0 {
		vfAssert("dep-concurrency-option-accepted", zr.Apply(ConcurrencyOption(4)) == nil)
	}
	var out []byte
	clean := false
	rb := vfParam("rb")
	if vfParam("cumjump") != 0 && sizes[0] == refBlockMax(bsid) {
		// The Reader counts the decoded bytes in a 32-bit field. Read the first (full) block, then
		// advance that counter by an arbitrary amount: the state of a stream that is that much
		// longer and whose last 64 KiB are this block. Decoding what follows must not depend on it.
		first := make([]byte, sizes[0])
		n, err := zr.Read(first)
		vfAssume(vfAnd(n == sizes[0], err == nil))
		out = append(out, first...)
		zr.cum += vfU32("cumjump")
	}
	if rb == 2 {
		var w hSink
		w.failAt = -1
		_, err := zr.WriteTo(&w)
		out = append(out, w.buf...)
		clean = err == nil
	} else {
		size := 1000
		if rb == 0 {
			size = refBlockMax(bsid)
		}
		for i := 0; i < 400; i++ {
			buf := make([]byte, size)
			n, err := zr.Read(buf)
			out = append(out, buf[:n]...)
			if err != nil {
				clean = err == io.EOF
				break
			}
		}
	}
	vfAssert("dep-clean-end", clean)
	vfAssert("dep-length", len(out) == len(want))
	if len(out) == len(want) {
		// compare only the region produced by the last block (the rest is concrete filler copied through)
		vfAssert("dep-prefix-equal", vfEqBytes(out[:total], want[:total]))
		vfAssert("dep-match-bytes-equal", vfEqBytes(out[total:], want[total:]))
	}
	vfReach("end")
}


// H_life_w2 (C17): Reset must make a Writer indistinguishable from a new one with the same
// options, whatever was going on before, including a change of block size afterwards. Phase 1
// (chosen symbolically): nothing / Write / Flush / ReadFrom on a Writer with block size bs1,
// optionally closed; then Reset to a new sink, Apply(BlockSizeOption(bs2)), and an input of n
// bytes (larger than the smaller block size) is written and closed. The second sink must hold
// exactly what a brand-new Writer with the same options produces, and be a valid frame.
func H_life_w2() {
	bs1 := vfParam("bs1")
	bs2 := vfParam("bs2")
	in := hInput()
	var s1, s2, s3 hSink
	s1.failAt, s2.failAt, s3.failAt = -1, -1, -1
	zw := NewWriter(&s1)
	vfAssert("w2-apply1", zw.Apply(BlockSizeOption(hBlockSizes[bs1]), ConcurrencyOption(1)) == nil)
	switch vfChoice("phase1", 4) {
	case 1:
		zw.Write(vfBytes("a", 3))
	case 2:
		zw.Flush()
	case 3:
		zw.ReadFrom(&hSource{data: vfBytes("a", 2), failAt: -1})
	}
	if vfChoice("close1", 2) == 1 {
		zw.Close()
	}
	zw.Reset(&s2)
	vfAssert("w2-apply2", zw.Apply(BlockSizeOption(hBlockSizes[bs2])) == nil)
	n, err := zw.Write(in)
	vfAssert("w2-write-ok", vfAnd(err == nil, n == len(in)))
	vfAssert("w2-close-ok", zw.Close() == nil)
	// a brand-new Writer with the same options
	fresh := NewWriter(&s3)
	fresh.Apply(BlockSizeOption(hBlockSizes[bs2]), ConcurrencyOption(1))
	fresh.Write(in)
	fresh.Close()
	vfAssert("w2-reset-equals-new", vfEqBytes(s2.buf, s3.buf))
	fi := refFrame(s2.buf, true)
	vfAssert("w2-valid-frame", vfAnd(fi.ok, fi.consumed == len(s2.buf)))
	vfAssert("w2-block-size-option-took-effect", fi.bsid == bs2)
	for _, bl := range fi.blockLens {
		vfAssert("w2-blocks-within-maximum", bl <= int(hBlockSizes[bs2]))
	}
	vfAssert("w2-content", vfEqBytes(fi.content, in))
	vfReach("end")
}
