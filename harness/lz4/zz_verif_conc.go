//go:build verif

package lz4

import (
	"errors"
	"io"
	"sync"
)

// C08: the concurrent pipelines under every schedule the executor explores (delay-bounded), with
// the happens-before race check, the use-after-release check, deadlock detection and a goroutine
// census after Close / end of stream / error. The same runs serve C14 (bytes equal to sequential
// operation), C15 (faults with concurrency) and C07 (hostile streams with concurrency).

func init() {
	vfHarnesses["H_conc_w"] = H_conc_w
	vfHarnesses["H_conc_r"] = H_conc_r
	vfHarnesses["H_stream_c"] = H_stream_c
}

// hCounter is the on-block-done callback target: called from library goroutines.
type hCounter struct {
	mu    sync.Mutex
	calls int
	total int
	late  int // calls made after the harness declared the operation over
	over  bool
}

func (c *hCounter) done(n int) {
	vfJitter()
	c.mu.Lock()
	c.calls++
	c.total += n
	if c.over {
		c.late++
	}
	c.mu.Unlock()
}

func (c *hCounter) snapshot(markOver bool) (calls, late int) {
	c.mu.Lock()
	if markOver {
		c.over = true
	}
	calls, late = c.calls, c.late
	c.mu.Unlock()
	return
}

func hPattern(n, salt int) []byte {
	b := make([]byte, n)
	for i := range b {
		b[i] = byte(0x41 + (i*5+i/4+salt)%23)
	}
	return b
}

// hAfterClose: what must hold once Close has returned. A goroutine that is merely on its way out
// (running its last return) is not held against the library; a callback made after Close has
// returned, or a goroutine that never ends, is.
func hAfterClose(cnt *hCounter, useHandler bool) {
	cnt.snapshot(true)
	left := vfSettle()
	vfAssert("conc-w-no-goroutine-leak", left == 0)
	if useHandler {
		_, late := cnt.snapshot(false)
		vfAssert("conc-w-no-callback-after-close", late == 0)
	}
}

type hConcRun struct {
	errs         []error
	want, want2  []byte
	blocks       int
	second       bool // the shape writes a second frame into sink2
	firstDropped bool // the first frame is abandoned by a Reset without Close
}

// hConcShape performs the call sequence `shape` on zw.
func hConcShape(zw *Writer, shape int, a, b []byte, sink2 *hSink, rfail int) (r hConcRun) {
	note := func(err error) { r.errs = append(r.errs, err) }
	switch shape {
	case 0: // Write Close
		_, err := zw.Write(a)
		note(err)
		note(zw.Close())
		r.want = a
		r.blocks = 1
	case 1: // Write Flush Write Close
		_, err := zw.Write(a)
		note(err)
		note(zw.Flush())
		_, err = zw.Write(b)
		note(err)
		note(zw.Close())
		r.want = append(append([]byte{}, a...), b...)
		r.blocks = 2
	case 2: // Write Flush Close
		_, err := zw.Write(a)
		note(err)
		note(zw.Flush())
		note(zw.Close())
		r.want = a
		r.blocks = 1
	case 3: // Write Close Reset Write Close: reuse after Close
		_, err := zw.Write(a)
		note(err)
		note(zw.Close())
		zw.Reset(sink2)
		_, err = zw.Write(b)
		note(err)
		note(zw.Close())
		r.want, r.want2 = a, b
		r.second = true
		r.blocks = 2
	case 4: // Write Close Close
		_, err := zw.Write(a)
		note(err)
		note(zw.Close())
		note(zw.Close())
		r.want = a
		r.blocks = 1
	case 5: // ReadFrom Close
		src := &hSource{data: a, failAt: rfail}
		_, err := zw.ReadFrom(src)
		note(err)
		note(zw.Close())
		r.want = a
		r.blocks = 1
	case 6: // Write ReadFrom Close
		_, err := zw.Write(a)
		note(err)
		src := &hSource{data: b, failAt: rfail}
		_, err = zw.ReadFrom(src)
		note(err)
		note(zw.Close())
		r.want = append(append([]byte{}, a...), b...)
		r.blocks = 2
	case 7: // Flush Close on an empty stream
		note(zw.Flush())
		note(zw.Close())
		r.blocks = 0
	case 8: // Write Flush Write Flush Write Close: three small blocks
		_, err := zw.Write(a)
		note(err)
		note(zw.Flush())
		_, err = zw.Write(b)
		note(err)
		note(zw.Flush())
		_, err = zw.Write(a)
		note(err)
		note(zw.Close())
		r.want = append(append(append([]byte{}, a...), b...), a...)
		r.blocks = 3
	case 9: // one full block and a tail through Write
		big := hPattern(65536+len(a), 3)
		r.want = append([]byte{}, big...)
		_, err := zw.Write(big)
		note(err)
		// Once Write has returned the slice is the caller's again (io.Writer: "must not retain p"):
		// reuse it while the block goroutines may still be at work.
		big[0] ^= 0xFF
		big[65535] ^= 0xFF
		big[65536] ^= 0xFF
		note(zw.Close())
		r.blocks = 2
	case 13: // one full block and a tail through ReadFrom
		big := hPattern(65536+len(a), 5)
		src := &hSource{data: big, failAt: rfail}
		_, err := zw.ReadFrom(src)
		note(err)
		note(zw.Close())
		r.want = big
		r.blocks = 2
	case 10: // Write Flush Reset (no Close) Write Close: the first frame is abandoned, nothing else
		_, err := zw.Write(a)
		note(err)
		note(zw.Flush())
		zw.Reset(sink2)
		_, err = zw.Write(b)
		note(err)
		note(zw.Close())
		r.want2 = b
		r.second = true
		r.firstDropped = true
	case 11: // Write Reset (no Flush, no Close) Write Close
		_, err := zw.Write(a)
		note(err)
		zw.Reset(sink2)
		_, err = zw.Write(b)
		note(err)
		note(zw.Close())
		r.want2 = b
		r.second = true
		r.firstDropped = true
	case 12: // Write Close, then Write on the closed Writer (must fail, not hang), Close
		_, err := zw.Write(a)
		note(err)
		note(zw.Close())
		_, err = zw.Write(b)
		vfAssert("conc-w-write-after-close-fails", err != nil)
		zw.Close()
		r.want = a
		r.blocks = 1
	}
	return
}

// H_conc_w drives a concurrent Writer through a call sequence (shape) with an optional sink or
// source fault, and compares with the same sequence on a sequential Writer.
func H_conc_w() {
	num := vfParam("num")
	shape := vfParam("shape")
	failAt := vfParam("fail")
	rfail := vfParam("rfail") // ReadFrom shapes: the source fails at this call (-1 never)
	useHandler := vfParam("handler") != 0
	a := hPattern(vfParam("n1"), 0)
	b := hPattern(vfParam("n2"), 7)
	base := []Option{BlockSizeOption(Block64Kb), BlockChecksumOption(vfParam("bc") != 0), ChecksumOption(vfParam("cc") != 0)}
	if vfParam("legacy") != 0 {
		base = []Option{LegacyOption(true)}
	}

	// the fault-free sequential run of the same call sequence
	var seq, seq2 hSink
	seq.failAt, seq2.failAt = -1, -1
	zs := NewWriter(&seq)
	vfAssume(zs.Apply(append(append([]Option{}, base...), ConcurrencyOption(1))...) == nil)
	hConcShape(zs, shape, a, b, &seq2, -1)

	var cnt hCounter
	var sink, sink2 hSink
	sink.failAt, sink2.failAt = failAt, -1
	zw := NewWriter(&sink)
	opts := append(append([]Option{}, base...), ConcurrencyOption(num))
	if useHandler {
		opts = append(opts, OnBlockDoneOption(cnt.done))
	}
	vfAssume(zw.Apply(opts...) == nil)
	r := hConcShape(zw, shape, a, b, &sink2, rfail)

	anyErr := false
	for _, e := range r.errs {
		if e != nil {
			anyErr = true
		}
	}
	if failAt < 0 && rfail < 0 {
		vfAssert("conc-w-no-error", !anyErr)
		hAfterClose(&cnt, useHandler)
		if !r.firstDropped {
			// blocks in submission order: an independent parser gives the input back
			fi := refFrame(sink.buf, true)
			vfAssert("conc-w-frame-well-formed", vfAnd(fi.ok, fi.consumed == len(sink.buf)))
			vfAssert("conc-w-blocks-in-order", vfEqBytes(fi.content, r.want))
			if len(a) > 0 && len(b) > 0 {
				vfAssert("conc-w-one-block-per-dispatch", fi.nblocks == r.blocks || r.second)
			}
			// C14: the bytes do not depend on the concurrency level or the schedule
			vfAssert("cdet-bytes-equal-sequential", vfEqBytes(sink.buf, seq.buf))
			// C02 with a concurrent Writer: the real Reader gives the input back
			back, fin := hConcDrain(NewReader(&hSource{data: sink.buf, failAt: -1}), 1, -1)
			vfAssert("rt-clean-end", fin == io.EOF)
			vfAssert("rt-output-equals-input", vfEqBytes(back, r.want))
		}
		if r.second {
			fi2 := refFrame(sink2.buf, true)
			vfAssert("conc-w-reuse-frame-well-formed", vfAnd(fi2.ok, fi2.consumed == len(sink2.buf)))
			vfAssert("conc-w-reuse-blocks-in-order", vfEqBytes(fi2.content, r.want2))
			vfAssert("cdet-reuse-bytes-equal-sequential", vfEqBytes(sink2.buf, seq2.buf))
		}
	} else {
		// C15 with concurrency: a failing sink is reported by some call if the failing write was
		// attempted, what reached the sink before is a prefix of the fault-free output and nothing
		// is written after the failure; C08: everything returns and nothing leaks
		cnt.snapshot(true)
		left := vfSettle()
		vfAssert("conc-w-no-goroutine-leak", left == 0)
		if sink.failed && !r.firstDropped {
			// (a Reset without Close abandons the frame together with its pending error)
			vfAssert("cfault-sink-failure-reported", anyErr)
			vfAssert("cfault-no-write-after-failure", sink.after == 0)
			vfAssert("cfault-sink-holds-prefix-of-fault-free-output", hIsPrefix(sink.buf[:sink.atFail], seq.buf))
		}
		if rfail >= 0 {
			vfAssert("cfault-source-failure-reported", anyErr)
		}
		if useHandler {
			// the last call of every sequence is Close: also when it reports an error it has
			// returned, and no callback may follow
			_, late := cnt.snapshot(false)
			vfAssert("conc-w-no-callback-after-close", late == 0)
		}
	}
	vfReach("end")
}

// hConcFrame builds a frame of k small independent blocks with a sequential Writer.
func hConcFrame(k, bc, cc, legacy int) (frame []byte, content []byte) {
	var sink hSink
	sink.failAt = -1
	zw := NewWriter(&sink)
	opts := []Option{BlockChecksumOption(bc != 0), ChecksumOption(cc != 0), ConcurrencyOption(1)}
	if legacy != 0 {
		opts = []Option{LegacyOption(true), ConcurrencyOption(1)}
	} else {
		opts = append(opts, BlockSizeOption(Block64Kb))
	}
	vfAssume(zw.Apply(opts...) == nil)
	for i := 0; i < k; i++ {
		p := hPattern(9+i*3, i)
		content = append(content, p...)
		zw.Write(p)
		zw.Flush()
	}
	zw.Close()
	return sink.buf, content
}

// hConcDrain reads zr to its end with the given mode; final is io.EOF for a clean end.
func hConcDrain(zr *Reader, mode int, wfail int) (out []byte, final error) {
	if mode == 2 {
		var w hSink
		w.failAt = wfail
		_, final = zr.WriteTo(&w)
		out = w.buf
		if final == nil {
			final = io.EOF
		}
		return
	}
	sz := 5
	if mode == 1 {
		sz = 65536
	}
	for i := 0; i < 4096; i++ {
		buf := make([]byte, sz)
		n, err := zr.Read(buf)
		out = append(out, buf[:n]...)
		if err != nil {
			return out, err
		}
	}
	vfAssert("conc-r-read-terminates", false)
	return
}

// H_conc_r drives a concurrent Reader over a k-block frame, optionally damaged, optionally
// followed by a Reset onto a second intact frame.
func H_conc_r() {
	num := vfParam("num")
	k := vfParam("k")
	mode := vfParam("mode")  // 0 Read with small buffers, 1 Read with a block-size buffer, 2 WriteTo
	damage := vfParam("dmg") // 0 none, 1 truncated at cut, 2 byte at cut flipped, 3 source fails at call `cut`
	cut := vfParam("cut")
	useHandler := vfParam("handler") != 0
	reuse := vfParam("reuse") != 0
	frame, content := hConcFrame(k, vfParam("bc"), vfParam("cc"), vfParam("legacy"))
	stream := append([]byte{}, frame...)
	src := &hSource{failAt: -1}
	switch damage {
	case 1:
		if cut > len(stream) {
			cut = len(stream)
		}
		stream = stream[:cut]
	case 2:
		if cut < len(stream) {
			stream[cut] ^= byte(vfParam("mask"))
		}
	case 3:
		src.failAt = cut
	}
	src.data = stream
	var cnt hCounter
	zr := NewReader(src)
	opts := []Option{ConcurrencyOption(num)}
	if useHandler {
		opts = append(opts, OnBlockDoneOption(cnt.done))
	}
	vfAssume(zr.Apply(opts...) == nil)
	wfail := vfParam("wfail") // WriteTo only: the destination fails at this call (-1 never)
	out, final := hConcDrain(zr, mode, wfail)
	if wfail >= 0 && mode == 2 {
		// a failing destination is neither the end of the stream nor a source or decoding error:
		// the pipeline may still be there; what matters is that Reset and reuse work (below)
		vfAssert("conc-r-delivered-prefix", hIsPrefix(out, content))
		goto reuse
	}
	// the end of the stream or an error has been reported: the pipeline is gone
	cnt.snapshot(true)
	{
		left := vfSettle()
		vfAssert("conc-r-no-goroutine-leak", left == 0)
	}
	if useHandler {
		_, late := cnt.snapshot(false)
		vfAssert("conc-r-no-callback-after-end", late == 0)
	}
	if damage == 0 {
		vfAssert("conc-r-clean-end", final == io.EOF)
		vfAssert("conc-r-blocks-in-order", vfEqBytes(out, content))
		// C02 with a concurrent Reader
		vfAssert("rt-clean-end", final == io.EOF)
		vfAssert("rt-output-equals-input", vfEqBytes(out, content))
	} else {
		// whatever was delivered is a prefix of the content; a clean end only with everything
		// (a flipped byte in a frame without block checksums can change the data itself before
		// anything notices: only the acceptance oracle applies there)
		if damage != 2 || vfParam("bc") != 0 {
			vfAssert("conc-r-delivered-prefix", hIsPrefix(out, content))
			if final == io.EOF {
				vfAssert("conc-r-clean-end-only-when-complete", len(out) == len(content))
			}
		}
		if damage == 3 && src.calls > cut {
			vfAssert("cfault-source-failure-not-a-clean-end", final != io.EOF)
		}
		if damage == 1 && cut < len(frame) && vfParam("legacy") == 0 {
			// C06 with a concurrent Reader
			vfAssert("trunc-delivered-is-prefix", hIsPrefix(out, content))
			vfAssert("trunc-not-clean", final != io.EOF)
			vfAssert("trunc-error-is-not-eof", vfAnd(final != nil, final != io.EOF))
			vfAssert("trunc-error-does-not-wrap-eof", !errors.Is(final, io.EOF))
		}
		if damage == 2 && final == io.EOF {
			// C05 with a concurrent Reader: a clean end only for what the reference parser accepts
			hAcceptOracle(stream[:src.pos], out)
		}
	}
reuse:
	if reuse {
		// Reset onto an intact frame: the Reader works again, in order, and ends cleanly
		src2 := &hSource{data: frame, failAt: -1}
		zr.Reset(src2)
		out2, final2 := hConcDrain(zr, mode, -1)
		vfAssert("conc-r-reuse-clean-end", final2 == io.EOF)
		vfAssert("conc-r-reuse-blocks-in-order", vfEqBytes(out2, content))
		vfAssert("conc-r-reuse-no-goroutine-leak", vfSettle() == 0)
	}
	vfReach("end")
}

// hStreamNum: concurrency level applied by H_stream (0 = leave the default).
var hStreamNum int

// H_stream_c is H_stream (C07, C05) with a concurrent Reader; afterwards nothing may be left
// running or blocked (C08).
func H_stream_c() {
	hStreamNum = vfParam("num")
	H_stream()
	hStreamNum = 0
}
