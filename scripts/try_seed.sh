#!/bin/bash
# usage: try_seed.sh <seed-dir (contains patch.diff, demo_test.go, meta.json)> <check ids...>
# Applies the patch to /repo, confirms the pinned tests still pass and the demo fails,
# runs the given checks, then restores /repo. Prints a summary.
set -u
SD=$1; shift
export GOFLAGS=-mod=mod GOPROXY=off GOSUMDB=off GOTOOLCHAIN=local
R=${TRY_REPO:-/repo}
cd $R || exit 2
if [ -n "$(git status --porcelain --untracked-files=no)" ]; then echo "/repo not clean"; exit 2; fi
DEMO_DIR=$(python3 -c "import json,sys;print(json.load(open('$SD/meta.json')).get('demo_pkg_dir','.'))" 2>/dev/null)
case "$DEMO_DIR" in *internal/lz4block*) DEMO_DIR=internal/lz4block;; *internal/lz4stream*) DEMO_DIR=internal/lz4stream;; *internal/xxh32*) DEMO_DIR=internal/xxh32;; *) DEMO_DIR=.;; esac
cp $SD/demo_test.go $R/$DEMO_DIR/zz_seed_demo_test.go
echo "--- demo on pristine tree"
timeout 600 go test -vet=off -count=1 -run 'Demo|C[0-9][0-9]' ./$DEMO_DIR 2>&1 | tail -3
git apply $SD/patch.diff || { rm -f $R/$DEMO_DIR/zz_seed_demo_test.go; echo "patch does not apply"; exit 2; }
echo "--- demo with patch"
timeout 600 go test -vet=off -count=1 -run 'Demo|C[0-9][0-9]' ./$DEMO_DIR 2>&1 | tail -3
rm -f $R/$DEMO_DIR/zz_seed_demo_test.go
echo "--- pinned suite with patch"
VERIF_REPO=$R python3 /verif/scripts/baseline_check.py
EVBAK=$(mktemp -d /tmp/evbak.XXXXXX); cp -a /verif/evidence/. $EVBAK/   # evidence of a seeded tree must not replace the real one
for c in "$@"; do
  echo "--- check $c with patch"
  (cd /verif && VERIF_REPO=$R VERIF_DIR=${TRY_VERIF_DIR:-/verif} timeout 1500 bin/vcheck $c --tier quick > /tmp/seed_$c.log 2>&1; echo "exit=$?"; grep -E "VIOLATION|KNOWN|MISMATCH|INCONCL|NOTE" /tmp/seed_$c.log | cut -c1-260 | head -6; tail -1 /tmp/seed_$c.log | cut -c1-300)
done
cp -a $EVBAK/. /verif/evidence/; rm -rf $EVBAK
cd $R && git checkout -- . && git status --porcelain --untracked-files=no
