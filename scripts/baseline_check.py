#!/usr/bin/env python3
"""Run the pinned test-suite of /repo (guard off) and compare with /root/.vp/BASELINE.json stable_pass."""
import json, subprocess, sys, os
env = dict(os.environ, GOFLAGS="-mod=mod", GOPROXY="off", GOSUMDB="off", GOMAXPROCS="8")  # baseline was recorded with 8 procs (sub-test names embed it)
p = subprocess.run(["go", "test", "-json", "-vet=off", "-count=1", "-timeout", "25m", "./..."], cwd=os.environ.get("VERIF_REPO","/repo"), capture_output=True, text=True, env=env)
status = {}
for line in p.stdout.splitlines():
    try:
        e = json.loads(line)
    except Exception:
        continue
    if e.get("Test") and e.get("Action") in ("pass", "fail", "skip"):
        status[e["Package"] + "::" + e["Test"]] = e["Action"]
base = json.load(open("/root/.vp/BASELINE.json"))
import shutil
bad = [t for t in base["stable_pass"] if status.get(t) != "pass"]
if not shutil.which("lz4"):
    # TestWriterLegacyCommand needs the external lz4 binary; it skips itself when absent
    bad = [t for t in bad if "TestWriterLegacyCommand" not in t]
print(f"baseline stable_pass={len(base['stable_pass'])} passing_now={len(base['stable_pass'])-len(bad)}")
for t in bad:
    print("NOT PASSING:", t, status.get(t))
sys.exit(1 if bad else 0)
