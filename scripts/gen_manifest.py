#!/usr/bin/env python3
"""Generates /verif/MANIFEST.json from the table below (single source of truth for the registered checks)."""
import json, sys

BLOCK_NOTE = "Trusted: go/ssa translation + gosym/asmsym executors (validated on every run by native replay of solver models, and by `vcheck selftest` which runs the executor as a plain interpreter against native execution), z3 5.1.0/4.8.12, the reference models in harness/ref. Bounds and what lies outside them are in the evidence file."
CONC_NOTE = "Goroutines, channels, sync.Mutex/WaitGroup/Pool are modelled by the executor (engine/conc.go): one goroutine runs at a time, the schedule is a vector of symbolic delay inputs bounded per job (delay-bounded scheduling), data races are found by a happens-before check over the explored runs. Trusted in addition to the rest: that model (validated by known-answer programs in `vcheck selftest` and by native replay under the Go race detector)."
FRAME_NOTE = "Sequential operation (concurrency = 1) unless stated. Trusted: go/ssa translation + gosym executor (witnesses replayed natively every run), z3, the reference frame parser / block decoder / XXH32 in harness/ref; sync.Pool, fmt.Errorf, block hashes are modelled as described in DESIGN.md section 2."
CHECKS = {
 "C01": dict(
  text="Bounded symbolic model checking of the real compressors and decoders: for every source content at each length in the bound (and the periodic long-match family) the fast and HC compressors (fresh, reused with arbitrary prior tables, pooled) are executed symbolically, the block is decoded by the real decoder (portable Go and amd64 assembly) and the result compared with the source. Verdicts are SMT unsat answers / syntactic identities; solver models are replayed natively.",
  note=BLOCK_NOTE + " The block hashes are summarised as uninterpreted functions (over-approximation). Sources > 64 KiB are outside the bound except the concrete window (65.6 KB) and long-literal-run (74 KB) families.",
  technique="bounded symbolic execution of go/ssa and of decode_amd64.s + SMT (z3), native replay",
  design="DESIGN.md section 5 C01"),
 "C03": dict(
  text="Bounded symbolic model checking of both block decoders: arbitrary source bytes (family A) and shaped blocks that place every wide copy at every distance from the buffer ends (family S), arbitrary prior destination contents, spare capacity with symbolic canaries; for the assembly every load/store address carries a solver-checked bounds obligation against src/dict/dst[0:len). A violated obligation yields a concrete input that is replayed natively (guard pages / canaries).",
  note=BLOCK_NOTE,
  technique="bounded symbolic execution of go/ssa and of decode_amd64.s with per-access bounds obligations + SMT (z3), native replay",
  design="DESIGN.md section 5 C03"),
 "C04": dict(
  text="Same exploration as C03 with a byte-at-a-time reference decoder as oracle executed by the same engine: accepted blocks give exactly the reference bytes and length for every prior destination content, rejected blocks (zero offset, offset before the dictionary, truncated sequence, too much output) give an error, with dictionaries.",
  note=BLOCK_NOTE,
  technique="bounded symbolic execution + reference-model oracle + SMT (z3), native replay",
  design="DESIGN.md section 5 C04"),
 "C10": dict(
  text="For every source content in the bound and destination sizes from the bound downwards, every block the compressors emit is checked against a strict-format reference (offset range, literals-only last sequence, last 5 bytes literals, last match >= 12 bytes before the end) and decodes to the source in the reference decoder.",
  note=BLOCK_NOTE + " Block hashes summarised as uninterpreted functions.",
  technique="bounded symbolic execution of go/ssa + strict-format reference oracle + SMT (z3), native replay",
  design="DESIGN.md section 5 C10"),
 "C11": dict(
  text="Compressors run on destinations that are sub-slices with spare capacity holding symbolic canary bytes, for destination lengths 0..bound+2: no escaping panic, canaries untouched, count <= len(dst), success at the bound, a positive count is a complete block (reference decoder).",
  note=BLOCK_NOTE + " Block hashes summarised as uninterpreted functions.",
  technique="bounded symbolic execution of go/ssa with symbolic canaries + SMT (z3), native replay",
  design="DESIGN.md section 5 C11"),
 "C12": dict(
  text="The portable decoder (SSA) and the amd64 assembly (asmsym) are executed in one symbolic run on the same inputs and prior destination contents; outcome class, length and bytes must agree. Counterexamples are replayed natively under both build configurations and the observations diffed.",
  note=BLOCK_NOTE,
  technique="bounded symbolic execution of both decoders (go/ssa + decode_amd64.s) in one run + SMT (z3), dual-build native replay",
  design="DESIGN.md section 5 C12"),
 "C13": dict(
  text="Bounded symbolic model checking of the real checksum code: ChecksumZero is compared with a reference XXH32 for every content at each length in the bound; the streaming type is covered by an inductive step (arbitrary symbolic pre-state related to a reference state, one Write / Sum32) so that histories of any length and any 64-bit total are inside the claim. Every verdict is an SMT (z3) unsat answer or a syntactic identity of the two hash-consed terms; solver models are replayed natively.",
  note="Trusted: go/ssa translation + gosym executor (validated per run by native replay of witnesses), z3, the reference XXH32 in harness/ref. Single writes longer than the bound and the ARM assembly are outside the claim.",
  technique="bounded symbolic execution of go/ssa + SMT (z3), inductive step on streaming state, native replay",
  design="DESIGN.md section 5 C13"),
 "C14": dict(
  text="Block level 2-safety by self-composition: the same symbolic source, depth and destination size are compressed from two different prior states (fresh object, reused object with arbitrary table contents given as SMT arrays, dirty object in the pool) and count, error and bytes must agree. Frame level: the same input split differently across Write calls gives identical frames, and a Writer with ConcurrencyOption 2..4 driven through 13 call sequences emits, under every schedule within the delay bound, exactly the bytes of the sequential Writer.",
  note=BLOCK_NOTE + " " + CONC_NOTE + " Content is concrete in the concurrent runs.",
  technique="self-composition under bounded symbolic execution of go/ssa + SMT (z3), native replay",
  design="DESIGN.md section 5 C14"),
 "C02": dict(
  text="The real Writer and the real Reader are executed symbolically end to end (concurrency 1): for every content of short inputs over the option matrix (block size x block checksum x content checksum x symbolic content size x level x legacy), nine delivery shapes (Write splits, Flush, ReadFrom with four source fragmentation modes, byte-by-byte) and five read-back shapes (direct and buffered Read, WriteTo), the decoded bytes equal the input and the stream ends cleanly; compressible 40/70-byte inputs exercise real compressed blocks. Concurrency: the call sequences of the C08 Writer runs (ConcurrencyOption 2..4) are read back by the real Reader, and frames of 1..4 blocks are read by a concurrent Reader, under every schedule within the delay bound.",
  note=FRAME_NOTE + " " + CONC_NOTE,
  technique="bounded symbolic execution of go/ssa (Writer -> Reader, std-lib io code executed) + SMT (z3), native replay",
  design="DESIGN.md section 5 C02"),
 "C05": dict(
  text="Reader acceptance is compared with a reference frame parser run on exactly the bytes the Reader consumed: arbitrary symbolic streams of up to 8 bytes after six prefixes (nothing, frame magic, legacy magic, skippable magic, two valid headers) decided by the solver, and every single-byte mutation position of Writer-made frames (mutation values enumerated, content concrete, because symbolic bytes under XXH32 comparisons only pose collision searches). Two classes of legacy/DictID permissiveness are listed as known findings; anything else accepted is a violation. A concurrent Reader (ConcurrencyOption(2)) is run over a two-block frame with one byte complemented at 10 (thorough: every) position(s) under every schedule within the delay bound, same oracle.",
  note=FRAME_NOTE + " " + CONC_NOTE,
  technique="bounded symbolic execution of go/ssa + reference-parser oracle + SMT (z3), native replay",
  design="DESIGN.md section 5 C05"),
 "C06": dict(
  text="Frames produced by the real Writer (21 templates over checksums/size/legacy/compressed/stored/empty blocks, content symbolic) are cut at a symbolically chosen position (every position 1..len-1, enumerated by the solver) and read back through Read (direct and buffered) and WriteTo under four source fragmentation modes: never a clean end, error is not and does not wrap io.EOF, delivered bytes are a prefix; legacy frames exempt exactly at block boundaries. A concurrent Reader (ConcurrencyOption(2)) is run over a two-block frame cut at 10 (thorough: every) position(s) under every schedule within the delay bound.",
  note=FRAME_NOTE + " " + CONC_NOTE,
  technique="bounded symbolic execution of go/ssa with symbolic cut position + SMT (z3), native replay",
  design="DESIGN.md section 5 C06"),
 "C07": dict(
  text="Arbitrary symbolic streams (as C05) with implicit obligations on every path: no escaping panic, every loop inside its unwinding bound, call depth bounded, every single allocation below the declared block maximum whatever the symbolic field values; invalid-magic and skippable-magic clauses as assertions; repetition of legacy magics / empty skippable frames with the call depth required not to grow (replayed natively with 3*10^7 repetitions). The same symbolic streams (up to 9/10 bytes after a valid header) are also read by a Reader with ConcurrencyOption(2) under every schedule with at most one delay: no deadlock, no panic in a library goroutine.",
  note=FRAME_NOTE + " " + CONC_NOTE,
  technique="bounded symbolic execution of go/ssa with unwinding/depth/allocation obligations + SMT (z3), native replay",
  design="DESIGN.md section 5 C07"),
 "C08": dict(
  text="The real Writer and Reader pipelines (ordering goroutine, per-block goroutines, reader and collector goroutines) are executed by the symbolic executor with goroutines, channels, mutexes, wait groups and pools modelled; the schedule is a vector of symbolic delay inputs enumerated by the solver (all schedules with at most 2, thorough 3, delays). On every explored run: no data race (happens-before check over all memory accesses), no access to a buffer that is in a pool, no deadlock, every call returns, nothing left alive after Close / end of stream / error, no callback after Close, blocks in submission order and a well-formed frame; call sequences with Flush, Reset, reuse after Close, double Close, ReadFrom, sink and source faults, damaged frames, hostile symbolic streams. Counterexamples are re-executed under the recorded schedule and replayed natively under the Go race detector.",
  note=CONC_NOTE + " Bounded: delays, <= 3 blocks in flight, 64 KiB blocks, concurrency 2..4; schedule-dependent counterexamples that only the executor reproduces are reported as such.",
  technique="bounded symbolic execution of go/ssa with modelled goroutines/channels, symbolic delay-bounded schedules + SMT (z3), happens-before race check, native replay under -race",
  design="DESIGN.md section 5 C08"),
 "C09": dict(
  text="Every frame image produced in the C02 exploration (as terms over the symbolic input) is parsed by a reference frame parser written from the specification: accepted, nothing after it, version 01, reserved bits 0, header checksum, configured content size, flags as configured, blocks within the maximum, block checksum over the stored bytes, content checksum, end mark, content equal to the input; legacy: magic + plain blocks.",
  note=FRAME_NOTE + " The incompressible-8-MiB legacy block case is not reached.",
  technique="bounded symbolic execution of go/ssa + reference-parser oracle + SMT (z3), native replay",
  design="DESIGN.md section 5 C09"),
 "C15": dict(
  text="The index of the failing call of the underlying writer (or reader) is a symbolic variable ranging over all calls of the fault-free run of 21 frame templates: the injected error is returned (never io.EOF), what had reached the sink is a prefix of the fault-free output, delivered bytes are a prefix of the content; decoding under four source fragmentation modes equals the unfragmented result. Concurrent operation: sink failing at call 0..7 of six call sequences, ReadFrom source failing, concurrent Reader with a failing source, under every schedule within the delay bound.",
  note=FRAME_NOTE + " " + CONC_NOTE,
  technique="bounded symbolic execution of go/ssa with symbolic fault index + SMT (z3), native replay",
  design="DESIGN.md section 5 C15"),
 "C16": dict(
  text="Frames with BlockIndependence = 0 are assembled by an independent encoder in the harness (stored and literal-only blocks of 3 bytes to 70000 bytes, then a compressed block whose match reaches 1 .. 65535 bytes back across them); the bytes the match reads are symbolic, so the assertion output == expected depends on the Reader's dictionary bookkeeping delivering exactly those bytes; Read/WriteTo, ConcurrencyOption(4) falling back.",
  note=FRAME_NOTE + " Offsets are case-split, not symbolic; up to 5 blocks.",
  technique="bounded symbolic execution of go/ssa over hand-built dependent-block frames + SMT (z3), native replay",
  design="DESIGN.md section 5 C16"),
 "C17": dict(
  text="Every sequence of 4 calls with symbolically chosen opcodes on a Writer (Apply, Write, ReadFrom, Flush, Close, Reset new/same sink) and on a Reader (Read small/large/empty, WriteTo, Size, Reset) is executed and compared after each call with the reference model of the statement (exactly-once emission as one frame, decodable prefix after Flush, options persistence, failures after Close, sticky end of stream without consuming the source); hangs show up as unwinding failures. The Writer sequences are also run on a concurrent Writer (ConcurrencyOption 2, 3) and the Reader sequences on a concurrent Reader (ConcurrencyOption 2), under every schedule within the delay bound.",
  note=FRAME_NOTE + " " + CONC_NOTE,
  technique="bounded symbolic execution of go/ssa over symbolic call sequences vs reference model + SMT (z3), native replay",
  design="DESIGN.md section 5 C17"),
 "C18": dict(
  text="The compressing reader is driven with buffer sizes chosen symbolically per call from {0,1,3,6,7,8,40,70000} (and, for a two-block 64 KiB source, sizes ending exactly on a block boundary +-1), sources of symbolic bytes with four fragmentation modes and a symbolic failing call: per-call count bounds and progress, the concatenation is one frame accepted by the reference parser reflecting the options and decoding to the source, io.EOF afterwards, source errors passed through.",
  note=FRAME_NOTE,
  technique="bounded symbolic execution of go/ssa with symbolic buffer sizes + reference-parser oracle + SMT (z3), native replay",
  design="DESIGN.md section 5 C18"),
 "C19": dict(
  text="One symbolic header (FLG, BD, eight size bytes, checksum byte: the complete 2^16 x 2^64 x 2^8 space) through ValidFrameHeader and Reader.Read/Size, compared with the specification's acceptance rule computed with the reference XXH32; a symbolic 32-bit first word for the non-magic clause. Complete over the stated space, decided by SMT.",
  note="Trusted: go/ssa translation + gosym executor, z3, reference XXH32; fmt.Errorf modelled as an error wrapping its %w operand.",
  technique="symbolic execution of go/ssa over the complete header space + SMT (z3), native replay",
  design="DESIGN.md section 5 C19"),
}

NOT_APPLICABLE = {
 "C20": "whole-program file I/O and flag parsing of cmd/lz4c with third-party modules; cannot be encoded within reach (DESIGN.md section 6)",
}

PENDING_REASON = "check not yet built in this revision of /verif (engine under construction, see DESIGN.md section 9)"

def main():
    all_ids = ["C%02d" % i for i in range(1, 21)]
    checks = []
    for pid in all_ids:
        if pid not in CHECKS:
            continue
        c = CHECKS[pid]
        checks.append({
            "property_id": pid,
            "quick_cmd": f"bin/vcheck {pid} --tier quick",
            "thorough_cmd": f"bin/vcheck {pid} --tier thorough",
            "evidence_file": f"/verif/evidence/{pid}.json",
            "replay_cmd_template": "bin/vcheck replay {path}",
            "engine": "vcheck",
            "level_claimed": {"category": "model_checking", "text": c["text"], "design_ref": c["design"]},
            "level_note": c["note"],
            "technique": c["technique"],
        })
    na = []
    for pid in all_ids:
        if pid in CHECKS:
            continue
        na.append({"property_id": pid, "reason": NOT_APPLICABLE.get(pid, PENDING_REASON)})
    m = {
        "version": 1,
        "setup_cmd": "cd /verif/engine && GOFLAGS=-mod=mod GOPROXY=off GOSUMDB=off GOTOOLCHAIN=local go build -o /verif/bin/vcheck .",
        "hooks": {
            "guard": "verif",
            "enable": "harness files (//go:build verif) under /verif/harness are injected with go/packages Overlay (symbolic run) and go test -overlay (native replay); /repo itself carries no hook code",
            "baseline_off_cmd": "cd /repo && GOFLAGS=-mod=mod go test -json -vet=off -count=1 -timeout 25m ./...",
            "source_commits": [],
            "add_only": True,
        },
        "engines": [{
            "name": "vcheck",
            "path": "/verif/engine",
            "serves_properties": sorted(CHECKS.keys()),
            "kind_free_text": "gosym: path-forking symbolic executor over go/ssa (x/tools v0.29.0) with decision-prefix replay; asmsym: symbolic executor for decode_amd64.s; SMT back end z3 4.8.12 over a pipe; native replay of solver models through go test -overlay",
        }],
        "checks": checks,
        "notes": "All claims are bounded (see evidence bounds/outside_bounds); frame-level claims are for concurrency = 1 unless the check says otherwise (C07, C08, C14, C15 include concurrent operation under delay-bounded schedules) and for amd64 (asm and noasm).",
        "not_applicable": na,
    }
    json.dump(m, open("/verif/MANIFEST.json", "w"), indent=1)
    print("checks:", [c["property_id"] for c in checks])

main()
