#!/usr/bin/env python3
"""Generates /verif/MANIFEST.json from the table below (single source of truth for the registered checks)."""
import json, sys

CHECKS = {
 "C13": dict(
  text="Bounded symbolic model checking of the real checksum code: ChecksumZero is compared with a reference XXH32 for every content at each length in the bound; the streaming type is covered by an inductive step (arbitrary symbolic pre-state related to a reference state, one Write / Sum32) so that histories of any length and any 64-bit total are inside the claim. Every verdict is an SMT (z3) unsat answer or a syntactic identity of the two hash-consed terms; solver models are replayed natively.",
  note="Trusted: go/ssa translation + gosym executor (validated per run by native replay of witnesses), z3 4.8.12, the reference XXH32 in harness/ref. Single writes longer than the bound and the ARM assembly are outside the claim.",
  technique="bounded symbolic execution of go/ssa + SMT (z3), inductive step on streaming state, native replay",
  design="DESIGN.md section 5 C13"),
}

NOT_APPLICABLE = {
 "C08": "quantifies over goroutine schedules and data races; no symbolic engine for Go concurrency in this image and schedule enumeration is not a solver verdict (DESIGN.md section 6)",
 "C20": "whole-program file I/O and flag parsing of cmd/lz4c with third-party modules; cannot be encoded within reach (DESIGN.md section 6)",
}

PENDING_REASON = "check not yet built in this revision of /verif (engine under construction, see DESIGN.md section 9)"

def main():
    all_ids = ["C%02d" % i for i in range(1, 21)]
    checks = []
    for pid in all_ids:
        if pid not in CHECKS:
            continue
        c = CHECKS[pid]
        checks.append({
            "property_id": pid,
            "quick_cmd": f"bin/vcheck {pid} --tier quick",
            "thorough_cmd": f"bin/vcheck {pid} --tier thorough",
            "evidence_file": f"/verif/evidence/{pid}.json",
            "replay_cmd_template": "bin/vcheck replay {path}",
            "engine": "vcheck",
            "level_claimed": {"category": "model_checking", "text": c["text"], "design_ref": c["design"]},
            "level_note": c["note"],
            "technique": c["technique"],
        })
    na = []
    for pid in all_ids:
        if pid in CHECKS:
            continue
        na.append({"property_id": pid, "reason": NOT_APPLICABLE.get(pid, PENDING_REASON)})
    m = {
        "version": 1,
        "setup_cmd": "cd /verif/engine && GOFLAGS=-mod=mod GOPROXY=off GOSUMDB=off GOTOOLCHAIN=local go build -o /verif/bin/vcheck .",
        "hooks": {
            "guard": "verif",
            "enable": "harness files (//go:build verif) under /verif/harness are injected with go/packages Overlay (symbolic run) and go test -overlay (native replay); /repo itself carries no hook code",
            "baseline_off_cmd": "cd /repo && GOFLAGS=-mod=mod go test -json -vet=off -count=1 -timeout 25m ./...",
            "source_commits": [],
            "add_only": True,
        },
        "engines": [{
            "name": "vcheck",
            "path": "/verif/engine",
            "serves_properties": sorted(CHECKS.keys()),
            "kind_free_text": "gosym: path-forking symbolic executor over go/ssa (x/tools v0.29.0) with decision-prefix replay; asmsym: symbolic executor for decode_amd64.s; SMT back end z3 4.8.12 over a pipe; native replay of solver models through go test -overlay",
        }],
        "checks": checks,
        "notes": "All claims are bounded (see evidence bounds/outside_bounds); frame-level claims are for concurrency = 1 and amd64 (asm and noasm).",
        "not_applicable": na,
    }
    json.dump(m, open("/verif/MANIFEST.json", "w"), indent=1)
    print("checks:", [c["property_id"] for c in checks])

main()
