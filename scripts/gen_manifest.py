#!/usr/bin/env python3
"""Generates /verif/MANIFEST.json from the table below (single source of truth for the registered checks)."""
import json, sys

BLOCK_NOTE = "Trusted: go/ssa translation + gosym/asmsym executors (validated on every run by native replay of solver models, and by `vcheck selftest` which runs the executor as a plain interpreter against native execution), z3 5.1.0/4.8.12, the reference models in harness/ref. Bounds and what lies outside them are in the evidence file."
CHECKS = {
 "C01": dict(
  text="Bounded symbolic model checking of the real compressors and decoders: for every source content at each length in the bound (and the periodic long-match family) the fast and HC compressors (fresh, reused with arbitrary prior tables, pooled) are executed symbolically, the block is decoded by the real decoder (portable Go and amd64 assembly) and the result compared with the source. Verdicts are SMT unsat answers / syntactic identities; solver models are replayed natively.",
  note=BLOCK_NOTE + " The block hashes are summarised as uninterpreted functions (over-approximation). Sources > 64 KiB are outside the bound.",
  technique="bounded symbolic execution of go/ssa and of decode_amd64.s + SMT (z3), native replay",
  design="DESIGN.md section 5 C01"),
 "C03": dict(
  text="Bounded symbolic model checking of both block decoders: arbitrary source bytes (family A) and shaped blocks that place every wide copy at every distance from the buffer ends (family S), arbitrary prior destination contents, spare capacity with symbolic canaries; for the assembly every load/store address carries a solver-checked bounds obligation against src/dict/dst[0:len). A violated obligation yields a concrete input that is replayed natively (guard pages / canaries).",
  note=BLOCK_NOTE,
  technique="bounded symbolic execution of go/ssa and of decode_amd64.s with per-access bounds obligations + SMT (z3), native replay",
  design="DESIGN.md section 5 C03"),
 "C04": dict(
  text="Same exploration as C03 with a byte-at-a-time reference decoder as oracle executed by the same engine: accepted blocks give exactly the reference bytes and length for every prior destination content, rejected blocks (zero offset, offset before the dictionary, truncated sequence, too much output) give an error, with dictionaries.",
  note=BLOCK_NOTE,
  technique="bounded symbolic execution + reference-model oracle + SMT (z3), native replay",
  design="DESIGN.md section 5 C04"),
 "C10": dict(
  text="For every source content in the bound and destination sizes from the bound downwards, every block the compressors emit is checked against a strict-format reference (offset range, literals-only last sequence, last 5 bytes literals, last match >= 12 bytes before the end) and decodes to the source in the reference decoder.",
  note=BLOCK_NOTE + " Block hashes summarised as uninterpreted functions.",
  technique="bounded symbolic execution of go/ssa + strict-format reference oracle + SMT (z3), native replay",
  design="DESIGN.md section 5 C10"),
 "C11": dict(
  text="Compressors run on destinations that are sub-slices with spare capacity holding symbolic canary bytes, for destination lengths 0..bound+2: no escaping panic, canaries untouched, count <= len(dst), success at the bound, a positive count is a complete block (reference decoder).",
  note=BLOCK_NOTE + " Block hashes summarised as uninterpreted functions.",
  technique="bounded symbolic execution of go/ssa with symbolic canaries + SMT (z3), native replay",
  design="DESIGN.md section 5 C11"),
 "C12": dict(
  text="The portable decoder (SSA) and the amd64 assembly (asmsym) are executed in one symbolic run on the same inputs and prior destination contents; outcome class, length and bytes must agree. Counterexamples are replayed natively under both build configurations and the observations diffed.",
  note=BLOCK_NOTE,
  technique="bounded symbolic execution of both decoders (go/ssa + decode_amd64.s) in one run + SMT (z3), dual-build native replay",
  design="DESIGN.md section 5 C12"),
 "C13": dict(
  text="Bounded symbolic model checking of the real checksum code: ChecksumZero is compared with a reference XXH32 for every content at each length in the bound; the streaming type is covered by an inductive step (arbitrary symbolic pre-state related to a reference state, one Write / Sum32) so that histories of any length and any 64-bit total are inside the claim. Every verdict is an SMT (z3) unsat answer or a syntactic identity of the two hash-consed terms; solver models are replayed natively.",
  note="Trusted: go/ssa translation + gosym executor (validated per run by native replay of witnesses), z3, the reference XXH32 in harness/ref. Single writes longer than the bound and the ARM assembly are outside the claim.",
  technique="bounded symbolic execution of go/ssa + SMT (z3), inductive step on streaming state, native replay",
  design="DESIGN.md section 5 C13"),
 "C14": dict(
  text="Block level 2-safety by self-composition: the same symbolic source, depth and destination size are compressed from two different prior states (fresh object, reused object with arbitrary table contents given as SMT arrays, dirty object in the pool) and count, error and bytes must agree. Frame-level/schedule independence is not claimed.",
  note=BLOCK_NOTE + " Only the block-level clause of C14 is claimed; concurrency and scheduling are outside.",
  technique="self-composition under bounded symbolic execution of go/ssa + SMT (z3), native replay",
  design="DESIGN.md section 5 C14"),
 "C19": dict(
  text="One symbolic header (FLG, BD, eight size bytes, checksum byte: the complete 2^16 x 2^64 x 2^8 space) through ValidFrameHeader and Reader.Read/Size, compared with the specification's acceptance rule computed with the reference XXH32; a symbolic 32-bit first word for the non-magic clause. Complete over the stated space, decided by SMT.",
  note="Trusted: go/ssa translation + gosym executor, z3, reference XXH32; fmt.Errorf modelled as an error wrapping its %w operand.",
  technique="symbolic execution of go/ssa over the complete header space + SMT (z3), native replay",
  design="DESIGN.md section 5 C19"),
}

NOT_APPLICABLE = {
 "C08": "quantifies over goroutine schedules and data races; no symbolic engine for Go concurrency in this image and schedule enumeration is not a solver verdict (DESIGN.md section 6)",
 "C20": "whole-program file I/O and flag parsing of cmd/lz4c with third-party modules; cannot be encoded within reach (DESIGN.md section 6)",
}

PENDING_REASON = "check not yet built in this revision of /verif (engine under construction, see DESIGN.md section 9)"

def main():
    all_ids = ["C%02d" % i for i in range(1, 21)]
    checks = []
    for pid in all_ids:
        if pid not in CHECKS:
            continue
        c = CHECKS[pid]
        checks.append({
            "property_id": pid,
            "quick_cmd": f"bin/vcheck {pid} --tier quick",
            "thorough_cmd": f"bin/vcheck {pid} --tier thorough",
            "evidence_file": f"/verif/evidence/{pid}.json",
            "replay_cmd_template": "bin/vcheck replay {path}",
            "engine": "vcheck",
            "level_claimed": {"category": "model_checking", "text": c["text"], "design_ref": c["design"]},
            "level_note": c["note"],
            "technique": c["technique"],
        })
    na = []
    for pid in all_ids:
        if pid in CHECKS:
            continue
        na.append({"property_id": pid, "reason": NOT_APPLICABLE.get(pid, PENDING_REASON)})
    m = {
        "version": 1,
        "setup_cmd": "cd /verif/engine && GOFLAGS=-mod=mod GOPROXY=off GOSUMDB=off GOTOOLCHAIN=local go build -o /verif/bin/vcheck .",
        "hooks": {
            "guard": "verif",
            "enable": "harness files (//go:build verif) under /verif/harness are injected with go/packages Overlay (symbolic run) and go test -overlay (native replay); /repo itself carries no hook code",
            "baseline_off_cmd": "cd /repo && GOFLAGS=-mod=mod go test -json -vet=off -count=1 -timeout 25m ./...",
            "source_commits": [],
            "add_only": True,
        },
        "engines": [{
            "name": "vcheck",
            "path": "/verif/engine",
            "serves_properties": sorted(CHECKS.keys()),
            "kind_free_text": "gosym: path-forking symbolic executor over go/ssa (x/tools v0.29.0) with decision-prefix replay; asmsym: symbolic executor for decode_amd64.s; SMT back end z3 4.8.12 over a pipe; native replay of solver models through go test -overlay",
        }],
        "checks": checks,
        "notes": "All claims are bounded (see evidence bounds/outside_bounds); frame-level claims are for concurrency = 1 and amd64 (asm and noasm).",
        "not_applicable": na,
    }
    json.dump(m, open("/verif/MANIFEST.json", "w"), indent=1)
    print("checks:", [c["property_id"] for c in checks])

main()
