#!/bin/bash
# usage: try_seed_par.sh <seed-dir> <scratch worktree of /repo (clean)> <check ids...>
# Parallel-safe variant of try_seed.sh: works on a scratch worktree and on a private copy of /verif
# (so that evidence files of the seeded tree never touch /verif/evidence). Prints a summary.
set -u
SD=$1; R=$2; shift 2
export GOFLAGS=-mod=mod GOPROXY=off GOSUMDB=off GOTOOLCHAIN=local
TAG=$(basename $SD)
VF=/tmp/vf-$TAG; rm -rf $VF; mkdir -p $VF; rsync -a --exclude .git --exclude replays /verif/ $VF/; mkdir -p $VF/replays
cd $R || exit 2
git checkout -q -- . ; git clean -fdq
DEMO_DIR=$(python3 -c "import json,sys;print(json.load(open('$SD/meta.json')).get('demo_pkg_dir','.'))" 2>/dev/null)
case "$DEMO_DIR" in *internal/lz4block*) DEMO_DIR=internal/lz4block;; *internal/lz4stream*) DEMO_DIR=internal/lz4stream;; *internal/xxh32*) DEMO_DIR=internal/xxh32;; *) DEMO_DIR=.;; esac
cp $SD/demo_test.go $R/$DEMO_DIR/zz_seed_demo_test.go
echo "--- demo on pristine tree"
timeout 900 go test -vet=off -count=1 -run 'Demo|C[0-9][0-9]' ./$DEMO_DIR 2>&1 | tail -3
git apply $SD/patch.diff || { rm -f $R/$DEMO_DIR/zz_seed_demo_test.go; echo "patch does not apply"; exit 2; }
echo "--- demo with patch"
timeout 900 go test -vet=off -count=1 -run 'Demo|C[0-9][0-9]' ./$DEMO_DIR 2>&1 | tail -3
rm -f $R/$DEMO_DIR/zz_seed_demo_test.go
echo "--- pinned suite with patch"
VERIF_REPO=$R python3 /verif/scripts/baseline_check.py
for c in "$@"; do
  echo "--- check $c with patch"
  (cd $VF && VERIF_REPO=$R VERIF_DIR=$VF timeout 1500 /verif/bin/vcheck $c --tier quick > /tmp/seedp_${TAG}_$c.log 2>&1; echo "exit=$?"; grep -E "VIOLATION|KNOWN|MISMATCH|INCONCL|NOTE" /tmp/seedp_${TAG}_$c.log | cut -c1-260 | head -6; tail -1 /tmp/seedp_${TAG}_$c.log | cut -c1-300)
done
cd $R && git checkout -q -- . && git clean -fdq; rm -rf $VF
