package main

// Hash-consed bit-vector / boolean terms with constant folding and light
// simplification. Width 0 = Bool. Widths 1..64 = bit-vectors.

import (
	"fmt"
	"math/bits"
	"strings"
)

type Op uint8

const (
	OpConst Op = iota
	OpVar
	OpAdd
	OpSub
	OpMul
	OpUDiv
	OpURem
	OpSDiv
	OpSRem
	OpAnd
	OpOr
	OpXor
	OpNot
	OpNeg
	OpShl
	OpLShr
	OpAShr
	OpConcat
	OpExtract
	OpZExt
	OpSExt
	OpIte
	OpEq
	OpUlt
	OpUle
	OpSlt
	OpSle
	OpBAnd
	OpBOr
	OpBNot
	OpSelect // select from a named havoc array: name = array, a = index; w = element width
	OpApply  // application of an uninterpreted function: name(a); w = result width
)

var opNames = [...]string{"const", "var", "bvadd", "bvsub", "bvmul", "bvudiv", "bvurem", "bvsdiv", "bvsrem", "bvand", "bvor", "bvxor", "bvnot", "bvneg", "bvshl", "bvlshr", "bvashr", "concat", "extract", "zero_extend", "sign_extend", "ite", "=", "bvult", "bvule", "bvslt", "bvsle", "and", "or", "not", "select", "apply"}

type Term struct {
	op      Op
	w       uint8 // 0 = bool
	a, b, c *Term
	val     uint64 // const value / extract hi<<8|lo / select: index width
	name    string // var / array name
	id      int
	umax    uint64 // unsigned upper bound (valid for w>=1)
	emitted int    // solver generation in which a define-fun was emitted
	hasSel  bool   // contains an array select
}

type termKey struct {
	op      Op
	w       uint8
	a, b, c int
	val     uint64
	name    string
}

type Arr struct {
	name string
	iw   uint8
	ew   uint8
}

type TermStore struct {
	tab    map[termKey]*Term
	nextID int
	vars   []*Term
	arrays []Arr
	tTrue  *Term
	tFalse *Term
	sel    map[string][]*Term
	ufs    map[string][2]uint8
	subst  map[*Term]*Term // per-path facts: term -> constant implied by the path condition
}

func NewTermStore() *TermStore {
	ts := &TermStore{tab: make(map[termKey]*Term, 1<<16), sel: map[string][]*Term{}}
	ts.tTrue = ts.mk(OpConst, 0, nil, nil, nil, 1, "")
	ts.tFalse = ts.mk(OpConst, 0, nil, nil, nil, 0, "")
	return ts
}

func mask(w uint8) uint64 {
	if w >= 64 {
		return ^uint64(0)
	}
	return (uint64(1) << w) - 1
}

func tid(t *Term) int {
	if t == nil {
		return -1
	}
	return t.id
}

func (ts *TermStore) mk(op Op, w uint8, a, b, c *Term, val uint64, name string) *Term {
	k := termKey{op, w, tid(a), tid(b), tid(c), val, name}
	if t, ok := ts.tab[k]; ok {
		if len(ts.subst) > 0 {
			if r, ok := ts.subst[t]; ok {
				return r
			}
		}
		return t
	}
	t := &Term{op: op, w: w, a: a, b: b, c: c, val: val, name: name, id: ts.nextID}
	ts.nextID++
	t.umax = ts.computeUmax(t)
	t.hasSel = op == OpSelect || op == OpApply || (a != nil && a.hasSel) || (b != nil && b.hasSel) || (c != nil && c.hasSel)
	ts.tab[k] = t
	return t
}

func (t *Term) IsConst() bool { return t.op == OpConst }
func (t *Term) IsTrue() bool  { return t.op == OpConst && t.w == 0 && t.val == 1 }
func (t *Term) IsFalse() bool { return t.op == OpConst && t.w == 0 && t.val == 0 }

// signed value of a constant
func (t *Term) SVal() int64 {
	return sext64(t.val, t.w)
}

func sext64(v uint64, w uint8) int64 {
	if w >= 64 {
		return int64(v)
	}
	sh := 64 - uint(w)
	return int64(v<<sh) >> sh
}

func (ts *TermStore) computeUmax(t *Term) uint64 {
	if t.w == 0 {
		return 1
	}
	m := mask(t.w)
	switch t.op {
	case OpConst:
		return t.val
	case OpZExt:
		return t.a.umax
	case OpAnd:
		if t.a.umax < t.b.umax {
			return t.a.umax
		}
		return t.b.umax
	case OpOr, OpXor:
		// bounded by next power of two minus one of the larger
		x := t.a.umax | t.b.umax
		if x == 0 {
			return 0
		}
		l := bits.Len64(x)
		if l >= 64 {
			return m
		}
		r := (uint64(1) << uint(l)) - 1
		if r > m {
			return m
		}
		return r
	case OpAdd:
		s := t.a.umax + t.b.umax
		if s < t.a.umax || s > m {
			return m
		}
		return s
	case OpMul:
		hi, lo := bits.Mul64(t.a.umax, t.b.umax)
		if hi != 0 || lo > m {
			return m
		}
		return lo
	case OpUDiv:
		if t.b.IsConst() && t.b.val != 0 {
			return t.a.umax / t.b.val
		}
		return t.a.umax // x/0 = all ones in SMT, but we guard div by zero before
	case OpURem:
		if t.b.umax > 0 && t.b.umax-1 < t.a.umax {
			return t.b.umax - 1
		}
		return t.a.umax
	case OpLShr:
		if t.b.IsConst() {
			if t.b.val >= uint64(t.w) {
				return 0
			}
			return t.a.umax >> t.b.val
		}
		return t.a.umax
	case OpShl:
		if t.b.IsConst() && t.b.val < uint64(t.w) {
			if bits.Len64(t.a.umax)+int(t.b.val) <= int(t.w) {
				return t.a.umax << t.b.val
			}
		}
		return m
	case OpIte:
		if t.b.umax > t.c.umax {
			return t.b.umax
		}
		return t.c.umax
	case OpExtract:
		hi, lo := uint8(t.val>>8), uint8(t.val&0xff)
		if lo == 0 && t.a.umax <= mask(hi+1) {
			return t.a.umax
		}
		return m
	case OpConcat:
		// a is high part
		return (t.a.umax << t.b.w) | t.b.umax
	}
	return m
}

func (ts *TermStore) Const(w uint8, v uint64) *Term {
	if w == 0 {
		if v != 0 {
			return ts.tTrue
		}
		return ts.tFalse
	}
	return ts.mk(OpConst, w, nil, nil, nil, v&mask(w), "")
}

func (ts *TermStore) Bool(b bool) *Term {
	if b {
		return ts.tTrue
	}
	return ts.tFalse
}

func (ts *TermStore) Var(name string, w uint8) *Term {
	k := termKey{OpVar, w, -1, -1, -1, 0, name}
	if t, ok := ts.tab[k]; ok {
		return t
	}
	t := ts.mk(OpVar, w, nil, nil, nil, 0, name)
	ts.vars = append(ts.vars, t)
	return t
}

func (ts *TermStore) NewArray(name string, iw, ew uint8) Arr {
	a := Arr{name, iw, ew}
	ts.arrays = append(ts.arrays, a)
	return a
}

func (ts *TermStore) Select(a Arr, idx *Term) *Term {
	if idx.w != a.iw {
		panic("select index width")
	}
	n := ts.nextID
	t := ts.mk(OpSelect, a.ew, idx, nil, nil, uint64(a.iw), a.name)
	if t.id == n {
		ts.sel[a.name] = append(ts.sel[a.name], t)
	}
	return t
}

// Apply builds name(arg) for an uninterpreted function with the given result width.
func (ts *TermStore) Apply(name string, w uint8, arg *Term) *Term {
	arg = ts.rep(arg)
	if ts.ufs == nil {
		ts.ufs = map[string][2]uint8{}
	}
	ts.ufs[name] = [2]uint8{arg.w, w}
	return ts.mk(OpApply, w, arg, nil, nil, 0, name)
}

func (ts *TermStore) binConst(op Op, w uint8, x, y uint64) (uint64, bool) {
	m := mask(w)
	switch op {
	case OpAdd:
		return (x + y) & m, true
	case OpSub:
		return (x - y) & m, true
	case OpMul:
		return (x * y) & m, true
	case OpUDiv:
		if y == 0 {
			return m, true
		}
		return x / y, true
	case OpURem:
		if y == 0 {
			return x, true
		}
		return x % y, true
	case OpSDiv:
		sx, sy := sext64(x, w), sext64(y, w)
		if sy == 0 {
			if sx < 0 {
				return 1, true
			}
			return m, true
		}
		if sy == -1 {
			return uint64(-sx) & m, true
		}
		return uint64(sx/sy) & m, true
	case OpSRem:
		sx, sy := sext64(x, w), sext64(y, w)
		if sy == 0 {
			return x, true
		}
		if sy == -1 {
			return 0, true
		}
		return uint64(sx%sy) & m, true
	case OpAnd:
		return x & y, true
	case OpOr:
		return x | y, true
	case OpXor:
		return x ^ y, true
	case OpShl:
		if y >= uint64(w) {
			return 0, true
		}
		return (x << y) & m, true
	case OpLShr:
		if y >= uint64(w) {
			return 0, true
		}
		return x >> y, true
	case OpAShr:
		sx := sext64(x, w)
		if y >= uint64(w) {
			y = uint64(w) - 1
		}
		return uint64(sx>>y) & m, true
	}
	return 0, false
}

func isCommutative(op Op) bool {
	switch op {
	case OpAdd, OpMul, OpAnd, OpOr, OpXor, OpEq, OpBAnd, OpBOr:
		return true
	}
	return false
}

// rep replaces a term by the constant the current path condition implies for it, if known.
func (ts *TermStore) rep(t *Term) *Term {
	if len(ts.subst) == 0 || t.op == OpConst {
		return t
	}
	if r, ok := ts.subst[t]; ok {
		return r
	}
	return t
}

func (ts *TermStore) Bin(op Op, a, b *Term) *Term {
	a, b = ts.rep(a), ts.rep(b)
	if a.w != b.w {
		panic(fmt.Sprintf("width mismatch %s: %d vs %d", opNames[op], a.w, b.w))
	}
	w := a.w
	if a.IsConst() && b.IsConst() {
		if v, ok := ts.binConst(op, w, a.val, b.val); ok {
			return ts.Const(w, v)
		}
	}
	if isCommutative(op) {
		// constants to the right; otherwise order by id
		if a.IsConst() || (!b.IsConst() && a.id > b.id) {
			a, b = b, a
		}
	}
	m := mask(w)
	// narrow expensive arithmetic when operand ranges allow it
	if w > 8 && (op == OpUDiv || op == OpURem || op == OpMul) && !a.IsConst() && !(op == OpMul && b.IsConst()) {
		need := bits.Len64(a.umax)
		if l := bits.Len64(b.umax); l > need {
			need = l
		}
		if op == OpMul {
			hi, lo := bits.Mul64(a.umax, b.umax)
			if hi != 0 {
				need = 64
			} else {
				need = bits.Len64(lo)
			}
		}
		if need < 1 {
			need = 1
		}
		// round up to a multiple of 8 to keep the number of distinct widths small
		k := uint8((need + 7) / 8 * 8)
		if k < w {
			na := ts.Extract(a, k-1, 0)
			nb := ts.Extract(b, k-1, 0)
			return ts.ZExt(ts.Bin(op, na, nb), w)
		}
	}
	switch op {
	case OpAdd:
		if b.IsConst() && b.val == 0 {
			return a
		}
		// (x + c1) + c2
		if b.IsConst() && a.op == OpAdd && a.b.IsConst() {
			return ts.Bin(OpAdd, a.a, ts.Const(w, a.b.val+b.val))
		}
		if b.IsConst() && a.op == OpSub && a.b.IsConst() {
			return ts.Bin(OpAdd, a.a, ts.Const(w, b.val-a.b.val))
		}
	case OpSub:
		if b.IsConst() && b.val == 0 {
			return a
		}
		if a == b {
			return ts.Const(w, 0)
		}
		if b.IsConst() {
			return ts.Bin(OpAdd, a, ts.Const(w, -b.val))
		}
		// (x + c) - x = c
		if a.op == OpAdd && a.a == b {
			return a.b
		}
		if a.op == OpAdd && a.b == b {
			return a.a
		}
		// (x + c1) - (x + c2)
		if a.op == OpAdd && b.op == OpAdd && a.a == b.a && a.b.IsConst() && b.b.IsConst() {
			return ts.Const(w, a.b.val-b.b.val)
		}
	case OpMul:
		if b.IsConst() {
			if b.val == 0 {
				return b
			}
			if b.val == 1 {
				return a
			}
		}
	case OpUDiv:
		if b.IsConst() && b.val == 1 {
			return a
		}
		if b.IsConst() && b.val != 0 && b.val&(b.val-1) == 0 {
			return ts.Bin(OpLShr, a, ts.Const(w, uint64(bits.TrailingZeros64(b.val))))
		}
		if b.IsConst() && b.val > a.umax {
			return ts.Const(w, 0)
		}
	case OpURem:
		if b.IsConst() && b.val != 0 && b.val&(b.val-1) == 0 {
			return ts.Bin(OpAnd, a, ts.Const(w, b.val-1))
		}
		if b.IsConst() && b.val > a.umax {
			return a
		}
	case OpSDiv, OpSRem:
		// non-negative operands: same as unsigned
		if a.umax <= m>>1 && b.umax <= m>>1 {
			if op == OpSDiv {
				return ts.Bin(OpUDiv, a, b)
			}
			return ts.Bin(OpURem, a, b)
		}
	case OpAnd:
		if b.IsConst() {
			if b.val == 0 {
				return b
			}
			if b.val == m {
				return a
			}
			// mask covering all possible bits
			if b.val&(b.val+1) == 0 && a.umax <= b.val {
				return a
			}
			if a.op == OpAnd && a.b.IsConst() {
				return ts.Bin(OpAnd, a.a, ts.Const(w, a.b.val&b.val))
			}
			// low mask of a zext / concat: extract
			if b.val&(b.val+1) == 0 {
				k := uint8(bits.Len64(b.val))
				if k < w {
					return ts.ZExt(ts.Extract(a, k-1, 0), w)
				}
			}
		}
		if a == b {
			return a
		}
	case OpOr:
		if b.IsConst() {
			if b.val == 0 {
				return a
			}
			if b.val == m {
				return b
			}
		}
		if a == b {
			return a
		}
		// zext(x) | (zext(y) << k) with x fitting below k  => concat
		if r := ts.orToConcat(a, b); r != nil {
			return r
		}
		if r := ts.orToConcat(b, a); r != nil {
			return r
		}
	case OpXor:
		if b.IsConst() && b.val == 0 {
			return a
		}
		if a == b {
			return ts.Const(w, 0)
		}
	case OpShl:
		if b.IsConst() {
			if b.val == 0 {
				return a
			}
			if b.val >= uint64(w) {
				return ts.Const(w, 0)
			}
			k := uint8(b.val)
			// shl by const: concat(extract(a, w-1-k, 0), 0_k)
			return ts.Concat(ts.Extract(a, w-1-k, 0), ts.Const(k, 0))
		}
	case OpLShr:
		if b.IsConst() {
			if b.val == 0 {
				return a
			}
			if b.val >= uint64(w) {
				return ts.Const(w, 0)
			}
			k := uint8(b.val)
			return ts.ZExt(ts.Extract(a, w-1, k), w)
		}
		if a.IsConst() && a.val == 0 {
			return a
		}
	case OpAShr:
		if b.IsConst() {
			if b.val == 0 {
				return a
			}
			if a.umax <= m>>1 {
				return ts.Bin(OpLShr, a, b)
			}
			k := b.val
			if k >= uint64(w) {
				k = uint64(w) - 1
			}
			return ts.SExt(ts.Extract(a, w-1, uint8(k)), w)
		}
	}
	return ts.mk(op, w, a, b, nil, 0, "")
}

// lo | hi where lo has umax < 2^k and hi = concat(x, 0_k)
func (ts *TermStore) orToConcat(lo, hi *Term) *Term {
	if hi.op == OpZExt && hi.a.op == OpConcat && hi.a.b.IsConst() && hi.a.b.val == 0 {
		k := hi.a.b.w
		if lo.umax > mask(k) {
			return nil
		}
		return ts.ZExt(ts.Concat(hi.a.a, ts.Extract(lo, k-1, 0)), hi.w)
	}
	if hi.op != OpConcat || !hi.b.IsConst() || hi.b.val != 0 {
		return nil
	}
	k := hi.b.w
	if k >= 64 || lo.umax > mask(k) {
		return nil
	}
	return ts.Concat(hi.a, ts.Extract(lo, k-1, 0))
}

func (ts *TermStore) Add(a, b *Term) *Term { return ts.Bin(OpAdd, a, b) }
func (ts *TermStore) Sub(a, b *Term) *Term { return ts.Bin(OpSub, a, b) }
func (ts *TermStore) Mul(a, b *Term) *Term { return ts.Bin(OpMul, a, b) }
func (ts *TermStore) And(a, b *Term) *Term { return ts.Bin(OpAnd, a, b) }
func (ts *TermStore) Or(a, b *Term) *Term  { return ts.Bin(OpOr, a, b) }
func (ts *TermStore) Xor(a, b *Term) *Term { return ts.Bin(OpXor, a, b) }

func (ts *TermStore) Not(a *Term) *Term {
	a = ts.rep(a)
	if a.IsConst() {
		return ts.Const(a.w, ^a.val)
	}
	if a.op == OpNot {
		return a.a
	}
	return ts.mk(OpNot, a.w, a, nil, nil, 0, "")
}

func (ts *TermStore) Neg(a *Term) *Term {
	a = ts.rep(a)
	if a.IsConst() {
		return ts.Const(a.w, -a.val)
	}
	return ts.mk(OpNeg, a.w, a, nil, nil, 0, "")
}

func (ts *TermStore) Concat(hi, lo *Term) *Term {
	hi, lo = ts.rep(hi), ts.rep(lo)
	w := hi.w + lo.w
	if w > 64 {
		panic("concat too wide")
	}
	if hi.IsConst() && lo.IsConst() {
		return ts.Const(w, hi.val<<lo.w|lo.val)
	}
	if hi.IsConst() && hi.val == 0 {
		return ts.ZExt(lo, w)
	}
	// concat(extract(x,h,m+1), extract(x,m,l)) = extract(x,h,l)
	if hi.op == OpExtract && lo.op == OpExtract && hi.a == lo.a {
		hl := uint8(hi.val & 0xff)
		lh := uint8(lo.val >> 8)
		if hl == lh+1 {
			return ts.Extract(hi.a, uint8(hi.val>>8), uint8(lo.val&0xff))
		}
	}
	// concat(zext(x), y) = zext(concat(x,y))
	if hi.op == OpZExt {
		return ts.ZExt(ts.Concat(hi.a, lo), w)
	}
	// right-assoc normal form: concat(concat(a,b),c) = concat(a,concat(b,c))
	if hi.op == OpConcat {
		return ts.Concat(hi.a, ts.Concat(hi.b, lo))
	}
	return ts.mk(OpConcat, w, hi, lo, nil, 0, "")
}

func (ts *TermStore) Extract(a *Term, hi, lo uint8) *Term {
	a = ts.rep(a)
	if hi < lo || hi >= a.w {
		panic(fmt.Sprintf("bad extract %d %d of width %d", hi, lo, a.w))
	}
	w := hi - lo + 1
	if w == a.w {
		return a
	}
	if a.IsConst() {
		return ts.Const(w, a.val>>lo)
	}
	switch a.op {
	case OpExtract:
		l2 := uint8(a.val & 0xff)
		return ts.Extract(a.a, hi+l2, lo+l2)
	case OpZExt:
		if hi < a.a.w {
			return ts.Extract(a.a, hi, lo)
		}
		if lo >= a.a.w {
			return ts.Const(w, 0)
		}
		return ts.ZExt(ts.Extract(a.a, a.a.w-1, lo), w)
	case OpSExt:
		if hi < a.a.w {
			return ts.Extract(a.a, hi, lo)
		}
	case OpConcat:
		lw := a.b.w
		if hi < lw {
			return ts.Extract(a.b, hi, lo)
		}
		if lo >= lw {
			return ts.Extract(a.a, hi-lw, lo-lw)
		}
		return ts.Concat(ts.Extract(a.a, hi-lw, 0), ts.Extract(a.b, lw-1, lo))
	case OpAnd, OpOr, OpXor:
		// push extract through bitwise ops when one side is const (cheap, enables folding)
		if a.b.IsConst() {
			return ts.Bin(a.op, ts.Extract(a.a, hi, lo), ts.Extract(a.b, hi, lo))
		}
	case OpIte:
		if a.b.IsConst() || a.c.IsConst() {
			return ts.Ite(a.a, ts.Extract(a.b, hi, lo), ts.Extract(a.c, hi, lo))
		}
	case OpAdd, OpSub, OpMul:
		if lo == 0 {
			// low bits of arithmetic depend only on low bits of operands
			return ts.Bin(a.op, ts.Extract(a.a, hi, 0), ts.Extract(a.b, hi, 0))
		}
	}
	if a.umax <= mask(lo) && lo > 0 && lo < 64 && a.umax < (uint64(1)<<lo) {
		return ts.Const(w, 0)
	}
	return ts.mk(OpExtract, w, a, nil, nil, uint64(hi)<<8|uint64(lo), "")
}

func (ts *TermStore) ZExt(a *Term, w uint8) *Term {
	a = ts.rep(a)
	if w == a.w {
		return a
	}
	if w < a.w {
		panic("zext narrower")
	}
	if a.IsConst() {
		return ts.Const(w, a.val)
	}
	if a.op == OpZExt {
		return ts.ZExt(a.a, w)
	}
	return ts.mk(OpZExt, w, a, nil, nil, 0, "")
}

func (ts *TermStore) SExt(a *Term, w uint8) *Term {
	a = ts.rep(a)
	if w == a.w {
		return a
	}
	if w < a.w {
		panic("sext narrower")
	}
	if a.IsConst() {
		return ts.Const(w, uint64(sext64(a.val, a.w)))
	}
	if a.umax <= mask(a.w)>>1 {
		return ts.ZExt(a, w)
	}
	return ts.mk(OpSExt, w, a, nil, nil, 0, "")
}

// Resize converts a to width w, extending by signedness of source.
func (ts *TermStore) Resize(a *Term, w uint8, signed bool) *Term {
	if w == a.w {
		return a
	}
	if w < a.w {
		return ts.Extract(a, w-1, 0)
	}
	if signed {
		return ts.SExt(a, w)
	}
	return ts.ZExt(a, w)
}

func (ts *TermStore) Ite(c, a, b *Term) *Term {
	c, a, b = ts.rep(c), ts.rep(a), ts.rep(b)
	if c.w != 0 {
		panic("ite cond not bool")
	}
	if a.w != b.w {
		panic("ite width mismatch")
	}
	if c.IsConst() {
		if c.val != 0 {
			return a
		}
		return b
	}
	if a == b {
		return a
	}
	if a.w == 0 {
		if a.IsTrue() && b.IsFalse() {
			return c
		}
		if a.IsFalse() && b.IsTrue() {
			return ts.BNot(c)
		}
		// bool ite
		return ts.BOr(ts.BAnd(c, a), ts.BAnd(ts.BNot(c), b))
	}
	if c.op == OpBNot {
		return ts.Ite(c.a, b, a)
	}
	return ts.mk(OpIte, a.w, c, a, b, 0, "")
}

func (ts *TermStore) Eq(a, b *Term) *Term {
	a, b = ts.rep(a), ts.rep(b)
	if a.w != b.w {
		panic(fmt.Sprintf("eq width mismatch %d %d", a.w, b.w))
	}
	if a == b {
		return ts.tTrue
	}
	if a.IsConst() && b.IsConst() {
		return ts.Bool(a.val == b.val)
	}
	if a.IsConst() || (!b.IsConst() && a.id > b.id) {
		a, b = b, a
	}
	if a.w == 0 {
		if b.IsTrue() {
			return a
		}
		if b.IsFalse() {
			return ts.BNot(a)
		}
	} else if b.IsConst() {
		if b.val > a.umax {
			return ts.tFalse
		}
		switch a.op {
		case OpZExt:
			if b.val > mask(a.a.w) {
				return ts.tFalse
			}
			return ts.Eq(a.a, ts.Const(a.a.w, b.val))
		case OpAdd:
			if a.b.IsConst() {
				return ts.Eq(a.a, ts.Const(a.w, b.val-a.b.val))
			}
		case OpIte:
			if a.b.IsConst() && a.c.IsConst() {
				return ts.Ite(a.a, ts.Bool(a.b.val == b.val), ts.Bool(a.c.val == b.val))
			}
		case OpConcat:
			return ts.BAnd(ts.Eq(a.a, ts.Const(a.a.w, b.val>>a.b.w)), ts.Eq(a.b, ts.Const(a.b.w, b.val)))
		case OpXor:
			if b.val == 0 {
				return ts.Eq(a.a, a.b)
			}
		case OpSub:
			if b.val == 0 {
				return ts.Eq(a.a, a.b)
			}
		}
	} else if a.op == OpZExt && b.op == OpZExt && a.a.w == b.a.w {
		return ts.Eq(a.a, b.a)
	} else if a.op == OpConcat && b.op == OpConcat && a.a.w == b.a.w {
		return ts.BAnd(ts.Eq(a.a, b.a), ts.Eq(a.b, b.b))
	}
	return ts.mk(OpEq, 0, a, b, nil, 0, "")
}

func (ts *TermStore) Ult(a, b *Term) *Term {
	a, b = ts.rep(a), ts.rep(b)
	if a.w != b.w {
		panic("ult width mismatch")
	}
	if a == b {
		return ts.tFalse
	}
	if a.IsConst() && b.IsConst() {
		return ts.Bool(a.val < b.val)
	}
	if b.IsConst() {
		if b.val == 0 {
			return ts.tFalse
		}
		if a.umax < b.val {
			return ts.tTrue
		}
		if a.op == OpZExt {
			if b.val > mask(a.a.w) {
				return ts.tTrue
			}
			return ts.Ult(a.a, ts.Const(a.a.w, b.val))
		}
		if b.val == 1 {
			return ts.Eq(a, ts.Const(a.w, 0))
		}
	}
	if a.IsConst() {
		if a.val >= b.umax {
			return ts.tFalse
		}
		if b.op == OpZExt {
			if a.val >= mask(b.a.w) {
				return ts.tFalse
			}
			return ts.Ult(ts.Const(b.a.w, a.val), b.a)
		}
	}
	if a.op == OpZExt && b.op == OpZExt && a.a.w == b.a.w {
		return ts.Ult(a.a, b.a)
	}
	return ts.mk(OpUlt, 0, a, b, nil, 0, "")
}

func (ts *TermStore) Ule(a, b *Term) *Term { return ts.BNot(ts.Ult(b, a)) }

func (ts *TermStore) Slt(a, b *Term) *Term {
	a, b = ts.rep(a), ts.rep(b)
	if a.w != b.w {
		panic("slt width mismatch")
	}
	if a == b {
		return ts.tFalse
	}
	if a.IsConst() && b.IsConst() {
		return ts.Bool(a.SVal() < b.SVal())
	}
	half := mask(a.w) >> 1
	if a.umax <= half && b.umax <= half {
		return ts.Ult(a, b)
	}
	// a non-negative, b const negative => false ; a const negative, b non-negative => true
	if a.umax <= half && b.IsConst() && b.SVal() < 0 {
		return ts.tFalse
	}
	if b.umax <= half && a.IsConst() && a.SVal() < 0 {
		return ts.tTrue
	}
	return ts.mk(OpSlt, 0, a, b, nil, 0, "")
}

func (ts *TermStore) Sle(a, b *Term) *Term { return ts.BNot(ts.Slt(b, a)) }

func (ts *TermStore) BNot(a *Term) *Term {
	a = ts.rep(a)
	if a.w != 0 {
		panic("bnot on bv")
	}
	if a.IsConst() {
		return ts.Bool(a.val == 0)
	}
	if a.op == OpBNot {
		return a.a
	}
	return ts.mk(OpBNot, 0, a, nil, nil, 0, "")
}

func (ts *TermStore) BAnd(a, b *Term) *Term {
	a, b = ts.rep(a), ts.rep(b)
	if a.w != 0 || b.w != 0 {
		panic("band on bv")
	}
	if a.IsConst() {
		if a.val != 0 {
			return b
		}
		return a
	}
	if b.IsConst() {
		if b.val != 0 {
			return a
		}
		return b
	}
	if a == b {
		return a
	}
	if (a.op == OpBNot && a.a == b) || (b.op == OpBNot && b.a == a) {
		return ts.tFalse
	}
	if a.id > b.id {
		a, b = b, a
	}
	return ts.mk(OpBAnd, 0, a, b, nil, 0, "")
}

func (ts *TermStore) BOr(a, b *Term) *Term {
	a, b = ts.rep(a), ts.rep(b)
	if a.w != 0 || b.w != 0 {
		panic("bor on bv")
	}
	if a.IsConst() {
		if a.val != 0 {
			return a
		}
		return b
	}
	if b.IsConst() {
		if b.val != 0 {
			return b
		}
		return a
	}
	if a == b {
		return a
	}
	if (a.op == OpBNot && a.a == b) || (b.op == OpBNot && b.a == a) {
		return ts.tTrue
	}
	if a.id > b.id {
		a, b = b, a
	}
	return ts.mk(OpBOr, 0, a, b, nil, 0, "")
}

func (ts *TermStore) Ne(a, b *Term) *Term { return ts.BNot(ts.Eq(a, b)) }

// ---------- SMT-LIB printing ----------

func sortOf(w uint8) string {
	if w == 0 {
		return "Bool"
	}
	return fmt.Sprintf("(_ BitVec %d)", w)
}

func constStr(w uint8, v uint64) string {
	if w == 0 {
		if v != 0 {
			return "true"
		}
		return "false"
	}
	if w%4 == 0 {
		return fmt.Sprintf("#x%0*x", int(w/4), v)
	}
	return fmt.Sprintf("#b%0*b", int(w), v)
}

func (t *Term) ref() string {
	switch t.op {
	case OpConst:
		return constStr(t.w, t.val)
	case OpVar:
		return t.name
	}
	return fmt.Sprintf("t%d", t.id)
}

// body returns the SMT-LIB expression of t in terms of refs of its children.
func (t *Term) body() string {
	switch t.op {
	case OpConst, OpVar:
		return t.ref()
	case OpNot, OpNeg, OpBNot:
		return "(" + opNames[t.op] + " " + t.a.ref() + ")"
	case OpExtract:
		return fmt.Sprintf("((_ extract %d %d) %s)", t.val>>8, t.val&0xff, t.a.ref())
	case OpZExt, OpSExt:
		return fmt.Sprintf("((_ %s %d) %s)", opNames[t.op], t.w-t.a.w, t.a.ref())
	case OpIte:
		return "(ite " + t.a.ref() + " " + t.b.ref() + " " + t.c.ref() + ")"
	case OpSelect:
		return "(select " + t.name + " " + t.a.ref() + ")"
	case OpApply:
		return "(" + t.name + " " + t.a.ref() + ")"
	}
	return "(" + opNames[t.op] + " " + t.a.ref() + " " + t.b.ref() + ")"
}

// String renders the term fully (for debugging; exponential on shared DAGs, use with care).
func (t *Term) String() string {
	var sb strings.Builder
	t.str(&sb, 0)
	return sb.String()
}

func (t *Term) str(sb *strings.Builder, depth int) {
	if depth > 12 || sb.Len() > 4000 {
		sb.WriteString("…")
		return
	}
	switch t.op {
	case OpConst, OpVar:
		sb.WriteString(t.ref())
		return
	case OpExtract:
		fmt.Fprintf(sb, "(extract[%d:%d] ", t.val>>8, t.val&0xff)
		t.a.str(sb, depth+1)
		sb.WriteString(")")
		return
	case OpSelect, OpApply:
		sb.WriteString("(" + opNames[t.op] + " " + t.name + " ")
		t.a.str(sb, depth+1)
		sb.WriteString(")")
		return
	}
	sb.WriteString("(" + opNames[t.op])
	if t.op == OpZExt || t.op == OpSExt {
		fmt.Fprintf(sb, "%d", t.w)
	}
	for _, c := range []*Term{t.a, t.b, t.c} {
		if c != nil {
			sb.WriteString(" ")
			c.str(sb, depth+1)
		}
	}
	sb.WriteString(")")
}

// Eval evaluates t under an assignment of variables (and array selects given by selFn).
func (ts *TermStore) Eval(t *Term, env map[string]uint64, memo map[*Term]uint64) uint64 {
	if t.op == OpConst {
		return t.val
	}
	if v, ok := memo[t]; ok {
		return v
	}
	var r uint64
	switch t.op {
	case OpVar:
		r = env[t.name] & mask(t.w)
	case OpSelect:
		idx := ts.Eval(t.a, env, memo)
		r = env[fmt.Sprintf("%s[%d]", t.name, idx)] & mask(t.w)
	case OpApply:
		arg := ts.Eval(t.a, env, memo)
		r = env[fmt.Sprintf("%s(%d)", t.name, arg)] & mask(t.w)
	case OpNot:
		r = ^ts.Eval(t.a, env, memo) & mask(t.w)
	case OpNeg:
		r = -ts.Eval(t.a, env, memo) & mask(t.w)
	case OpBNot:
		r = 1 - ts.Eval(t.a, env, memo)
	case OpExtract:
		hi, lo := uint8(t.val>>8), uint8(t.val&0xff)
		r = (ts.Eval(t.a, env, memo) >> lo) & mask(hi-lo+1)
	case OpZExt:
		r = ts.Eval(t.a, env, memo)
	case OpSExt:
		r = uint64(sext64(ts.Eval(t.a, env, memo), t.a.w)) & mask(t.w)
	case OpIte:
		if ts.Eval(t.a, env, memo) != 0 {
			r = ts.Eval(t.b, env, memo)
		} else {
			r = ts.Eval(t.c, env, memo)
		}
	case OpConcat:
		r = ts.Eval(t.a, env, memo)<<t.b.w | ts.Eval(t.b, env, memo)
	case OpEq:
		r = b2u(ts.Eval(t.a, env, memo) == ts.Eval(t.b, env, memo))
	case OpUlt:
		r = b2u(ts.Eval(t.a, env, memo) < ts.Eval(t.b, env, memo))
	case OpUle:
		r = b2u(ts.Eval(t.a, env, memo) <= ts.Eval(t.b, env, memo))
	case OpSlt:
		r = b2u(sext64(ts.Eval(t.a, env, memo), t.a.w) < sext64(ts.Eval(t.b, env, memo), t.a.w))
	case OpSle:
		r = b2u(sext64(ts.Eval(t.a, env, memo), t.a.w) <= sext64(ts.Eval(t.b, env, memo), t.a.w))
	case OpBAnd:
		r = ts.Eval(t.a, env, memo) & ts.Eval(t.b, env, memo)
	case OpBOr:
		r = ts.Eval(t.a, env, memo) | ts.Eval(t.b, env, memo)
	default:
		v, ok := ts.binConst(t.op, t.w, ts.Eval(t.a, env, memo), ts.Eval(t.b, env, memo))
		if !ok {
			panic("eval: unhandled op " + opNames[t.op])
		}
		r = v
	}
	memo[t] = r
	return r
}

func b2u(b bool) uint64 {
	if b {
		return 1
	}
	return 0
}

// learn records that c holds on the current path (c has been added to the path condition).
func (ts *TermStore) learn(c *Term) {
	if ts.subst == nil {
		ts.subst = map[*Term]*Term{}
	}
	if c.IsConst() {
		return
	}
	ts.subst[c] = ts.tTrue
	switch c.op {
	case OpBNot:
		ts.subst[c.a] = ts.tFalse
		if c.a.op == OpBOr { // not(a or b) => not a, not b
			ts.learn(ts.bnotRaw(c.a.a))
			ts.learn(ts.bnotRaw(c.a.b))
		}
	case OpBAnd:
		ts.learn(c.a)
		ts.learn(c.b)
	case OpEq:
		if c.b.IsConst() && !c.a.IsConst() {
			ts.subst[c.a] = c.b
		}
	}
	if c.op != OpBNot {
		n := ts.bnotRaw(c)
		ts.subst[n] = ts.tFalse
	}
}

// bnotRaw builds not(a) without consulting the substitution map.
func (ts *TermStore) bnotRaw(a *Term) *Term {
	if a.IsConst() {
		return ts.Bool(a.val == 0)
	}
	if a.op == OpBNot {
		return a.a
	}
	saved := ts.subst
	ts.subst = nil
	r := ts.mk(OpBNot, 0, a, nil, nil, 0, "")
	ts.subst = saved
	return r
}
