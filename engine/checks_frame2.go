package main

import (
	"fmt"
	"strings"
)

func fmk(harness string, p map[string]int) *Job {
	j := mkJob(strings.TrimPrefix(harness, "H_")+"-"+pstr(p), harness, "", "verif,noasm", p)
	j.Unwind = 400000
	j.MaxEnum = 2048
	j.AllocLimit = 8<<20 + 64
	return j
}

// frame templates: option/delivery combinations used to produce frames with the real Writer
func frameTemplates(tier string) []map[string]int {
	var out []map[string]int
	r := &lcg{s: 777}
	add := func(n, period, bs, bc, cc, sizeopt, level, legacy, deliv, k int) {
		out = append(out, P("n", n, "period", period, "bs", bs, "bc", bc, "cc", cc, "sizeopt", sizeopt, "level", level, "legacy", legacy, "deliv", deliv, "k", k))
	}
	for bc := 0; bc <= 1; bc++ {
		for cc := 0; cc <= 1; cc++ {
			for sizeopt := 0; sizeopt <= 1; sizeopt++ {
				add(5, 0, 4+r.next(4), bc, cc, sizeopt, 0, 0, 2, 2)   // two tiny stored blocks
				add(40, 2, 4, bc, cc, sizeopt, r.next(2), 0, 1, 17) // one compressed block
			}
		}
	}
	add(0, 0, 4, 1, 1, 0, 0, 0, 0, 0)   // empty frame
	add(0, 0, 4, 0, 1, 0, 0, 0, 4, 0)   // empty ReadFrom: an empty block
	add(6, 0, 4, 0, 0, 0, 0, 1, 2, 3)   // legacy, two blocks
	add(40, 1, 4, 0, 0, 0, 0, 1, 0, 0)  // legacy, one compressed block
	add(70, 3, 5, 1, 1, 0, 0, 0, 2, 30) // two compressed blocks
	if tier == "thorough" {
		for i := 0; i < 12; i++ {
			n := []int{3, 9, 24, 64}[r.next(4)]
			period := r.next(3)
			if n > 12 && period == 0 {
				period = 1 + r.next(2) // arbitrary content only for short inputs (path explosion in the compressors)
			}
			add(n, period, 4+r.next(4), r.next(2), r.next(2), r.next(2), r.next(2), 0, r.next(5), 1+r.next(8))
		}
	}
	return out
}

func with(p map[string]int, kv ...interface{}) map[string]int {
	q := map[string]int{}
	for k, v := range p {
		q[k] = v
	}
	for i := 0; i+1 < len(kv); i += 2 {
		q[kv[i].(string)] = kv[i+1].(int)
	}
	return q
}

func truncJobs(tier string) []*Job {
	var jobs []*Job
	for i, t := range frameTemplates(tier) {
		for _, rb := range []int{0, 1, 2} {
			if tier != "thorough" && (i+rb)%3 == 2 {
				continue
			}
			jobs = append(jobs, fmk("H_trunc", with(t, "rb", rb, "rsrc", (i+rb)%4, "cutsel", 0)))
		}
	}
	// a block stored raw at exactly the block size (64 KiB of incompressible bytes: the block data
	// fills the Reader's whole block buffer), alone and followed by a short stored block; cuts at
	// every structural boundary +-3
	big := func(n, bc, cc, deliv, rb int) {
		jobs = append(jobs, fmk("H_trunc", P("n", n, "period", -65536, "bs", 4, "bc", bc, "cc", cc, "sizeopt", 0, "level", 0, "legacy", 0, "deliv", deliv, "k", 0, "rb", rb, "rsrc", 0, "cutsel", 1)))
	}
	big(65536, 1, 0, 0, 0)
	big(65536+300, 1, 0, 0, 2)
	big(65536, 0, 0, 4, 1)
	if tier == "thorough" {
		big(65536, 1, 0, 0, 2)
		big(65536, 1, 1, 0, 1)
		big(65536+300, 1, 1, 4, 0)
		big(65536+300, 0, 1, 0, 1)
		big(131072, 1, 0, 0, 0)
	}
	return jobs
}

func mutateJobs(tier string) []*Job {
	var jobs []*Job
	vals := 11
	if tier == "thorough" {
		vals = 256
	}
	for i, t := range frameTemplates(tier) {
		t = with(t, "period", -(17 + i)) // concrete content
		if t["sizeopt"] != 0 {
			t["sizeopt"] = 2 // and a concrete content-size field
		}
		if t["n"] > 40 {
			continue
		}
		for _, rb := range []int{0, 1, 2} {
			if tier != "thorough" && (i+rb)%3 != 0 {
				continue
			}
			jobs = append(jobs, fmk("H_mutate", with(t, "rb", rb, "rsrc", (i+rb)%4, "dup", 0, "vals", vals)))
		}
		if i%4 == 0 {
			jobs = append(jobs, fmk("H_mutate", with(t, "rb", i%3, "rsrc", 0, "dup", 1, "vals", 11)))
		}
	}
	return jobs
}

func streamJobs(tier string) []*Job {
	var jobs []*Job
	N := map[int]int{0: 8, 1: 6, 2: 7, 3: 8, 4: 8, 5: 9}
	if tier == "thorough" {
		N = map[int]int{0: 10, 1: 8, 2: 8, 3: 10, 4: 10, 5: 11}
	}
	for shape := 0; shape <= 5; shape++ {
		for n := 0; n <= N[shape]; n++ {
			for _, rb := range []int{0, 1, 2} {
				if tier != "thorough" && n < N[shape]-2 && (n+rb)%3 != 0 {
					continue
				}
				jobs = append(jobs, fmk("H_stream", P("shape", shape, "n", n, "rb", rb, "rsrc", (n+rb)%4)))
			}
		}
	}
	return jobs
}

func repeatJobs(tier string) []*Job {
	var jobs []*Job
	for kind := 0; kind <= 2; kind++ {
		for _, k := range []int{1, 40, 90} {
			j := fmk("H_repeat", P("kind", kind, "k", k))
			j.MaxDepth = 48
			jobs = append(jobs, j)
		}
	}
	return jobs
}

func faultJobs(tier string) []*Job {
	var jobs []*Job
	for i, t := range frameTemplates(tier) {
		jobs = append(jobs, fmk("H_fault_w", t))
		if t["deliv"] != 4 {
			jobs = append(jobs, fmk("H_fault_w", with(t, "deliv", 4))) // same options through ReadFrom
		}
		for _, rb := range []int{0, 1, 2} {
			for _, rsrc := range []int{0, 1, 2, 3} {
				if tier != "thorough" && (i+rb+rsrc)%4 != 0 {
					continue
				}
				jobs = append(jobs, fmk("H_fault_r", with(t, "rb", rb, "rsrc", rsrc, "ekind", 0)))
			}
			// the same with a source failure that wraps io.EOF (still a failure, never the end)
			if tier == "thorough" || (i+rb)%2 == 0 {
				jobs = append(jobs, fmk("H_fault_r", with(t, "rb", rb, "rsrc", 0, "ekind", 1)))
			}
		}
	}
	return jobs
}

func depJobs(tier string) []*Job {
	var jobs []*Job
	r := &lcg{s: 99}
	for lay := 0; lay <= 5; lay++ {
		for off := 0; off <= 5; off++ {
			for _, mlen := range []int{4, 20, 300} {
				if tier != "thorough" && (lay+off+mlen)%3 == 1 {
					continue
				}
				if mlen == 300 && tier != "thorough" && off%2 == 1 {
					continue
				}
				jobs = append(jobs, fmk("H_dep", P("lay", lay, "off", off, "mlen", mlen, "cc", r.next(2), "rb", r.next(3), "rsrc", []int{0, 0, 2}[r.next(3)], "conc", r.next(2), "rawmix", r.next(2), "cumjump", 0)))
				if (lay == 2 || lay == 3) && mlen == 20 {
					// the same with the Reader's 32-bit byte counter advanced by a symbolic amount after the first block
					jobs = append(jobs, fmk("H_dep", P("lay", lay, "off", off, "mlen", mlen, "cc", off%2, "rb", off%3, "rsrc", 0, "conc", 0, "rawmix", 0, "cumjump", 1)))
				}
			}
		}
	}
	return jobs
}

func lifeJobs(tier string) []*Job {
	var jobs []*Job
	L := 4
	if tier == "thorough" {
		L = 5
	}
	for bc := 0; bc <= 1; bc++ {
		jobs = append(jobs, fmk("H_life_w", P("L", L, "bc", bc)))
	}
	// the same call sequences on a concurrent Writer, under every schedule within the delay bound
	// (the sink is only inspected when no library goroutine can be writing to it)
	if tier == "thorough" {
		jobs = append(jobs, cmk("H_life_wc", 2, P("L", 4, "bc", 0, "num", 2, "sfail", -1)), cmk("H_life_wc", 1, P("L", 5, "bc", 1, "num", 3, "sfail", -1)))
	} else {
		jobs = append(jobs, cmk("H_life_wc", 1, P("L", 4, "bc", 0, "num", 2, "sfail", -1)), cmk("H_life_wc", 2, P("L", 3, "bc", 1, "num", 3, "sfail", -1)))
	}
	// ... and with the first sink failing at call 1..3 (after the header): no call may hang
	for sf := 1; sf <= 3; sf++ {
		jobs = append(jobs, cmk("H_life_wc", 1, P("L", 3, "bc", sf%2, "num", 2, "sfail", sf)))
	}
	jobs = append(jobs, concReaderLifeJobs(tier)...)
	// Reset followed by a change of block size and an input larger than the smaller block size
	for _, p := range [][2]int{{7, 4}, {4, 5}, {5, 4}, {4, 4}} {
		jobs = append(jobs, fmk("H_life_w2", P("bs1", p[0], "bs2", p[1], "n", 70000, "period", -1150)))
	}
	for i, t := range frameTemplates(tier) {
		if t["n"] > 40 || (tier != "thorough" && i%3 != 0) {
			continue
		}
		for _, trail := range []int{0, 3, 8} {
			if t["legacy"] != 0 && trail != 0 {
				continue // a legacy frame has no end mark: bytes after it are part of the stream
			}
			jobs = append(jobs, fmk("H_life_r", with(t, "L", L, "trail", trail)))
		}
	}
	return jobs
}

func creaderJobs(tier string) []*Job {
	var jobs []*Job
	R := 3
	if tier == "thorough" {
		R = 4
	}
	for i, t := range frameTemplates(tier) {
		if t["legacy"] != 0 {
			continue
		}
		if tier != "thorough" && i%2 == 1 {
			continue
		}
		jobs = append(jobs, fmk("H_creader", with(t, "fail", 0, "rsrc", i%4, "R", R)))
		if i%4 == 0 {
			jobs = append(jobs, fmk("H_creader", with(t, "fail", 1, "rsrc", (i/4)%4, "R", 2)))
		}
	}
	// two-block sources (64 KiB + a little, concrete compressible filler): buffers ending exactly
	// on a block boundary
	for _, bc := range []int{0, 1} {
		jobs = append(jobs, fmk("H_creader", P("n", 65536+300, "period", -200, "bs", 4, "bc", bc, "cc", 1, "sizeopt", 0, "level", 0, "legacy", 0, "deliv", 0, "k", 0, "fail", 0, "rsrc", 0, "R", 2)))
	}
	for n := 0; n <= 4; n++ {
		jobs = append(jobs, fmk("H_creader", P("n", n, "period", 0, "bs", 4, "bc", n%2, "cc", 1, "sizeopt", n%2, "level", 0, "legacy", 0, "deliv", 0, "k", 0, "fail", 0, "rsrc", n%4, "R", R)))
	}
	return jobs
}

var frame2Outside = []string{
	"concurrency != 1 except where stated (C08 covers the pipelines)",
	"frames larger than the templates (tiny stored blocks, 40..70-byte compressible inputs); 64 KiB..4 MiB block boundaries except in the dependent-block family",
}

func init() {
	tmpl := "frame templates produced by the real Writer: {block checksum} x {content checksum} x {content size} on two tiny stored blocks and on a 40-byte compressible input, plus empty frame, empty ReadFrom, legacy (1 and 2 blocks), two compressed blocks"
	concR := func(tier string, dmg int) []*Job {
		var jobs []*Job
		for _, j := range concReaderJobs(tier) {
			if j.Params["dmg"] == dmg && j.Params["reuse"] == 0 {
				jobs = append(jobs, j)
			}
		}
		return jobs
	}
	checkDefs["C06"] = &CheckDef{Property: "C06", Jobs: func(tier string) []*Job { return append(truncJobs(tier), concR(tier, 1)...) },
		Bounds: func(string) []string {
			return []string{tmpl, "every cut position 1..len-1 of every template (position chosen symbolically, enumerated by the solver); read back through Read (>= block, 3-byte buffers) and WriteTo, with 4 source fragmentation modes; input bytes symbolic", "frames holding a block stored raw at exactly the block size (64 KiB of concrete incompressible bytes, alone, twice, or followed by a 300-byte stored block; block checksum on/off): every cut within 3 bytes of a structural boundary (header, size word, block data, block checksum, end mark)", "concurrent Reader (ConcurrencyOption(2)): a two-block frame with both checksums cut at 10 (thorough: every) position(s), Read and WriteTo, under every schedule with at most 2 delays"}
		}, Outside: frame2Outside, Assumptions: frameAssumptions,
		Filter: func(id string) bool { return hasPrefix(id, "trunc-") || hasPrefix(id, "no-panic") || hasPrefix(id, "unwind") }}
	checkDefs["C05"] = &CheckDef{Property: "C05",
		Jobs: func(tier string) []*Job {
			return append(append(mutateJobs(tier), streamJobs(tier)...), concR(tier, 2)...)
		},
		Bounds: func(tier string) []string {
			return []string{tmpl + " (concrete content for the mutation family)", "mutations: every byte position x {8 single-bit flips, 0x00, 0xFF, complement} (thorough: all 255 other values), and block duplication; arbitrary streams: 0..8 (thorough ..11) fully symbolic bytes after nothing / frame magic / legacy magic / skippable magic / a valid header, read through Read and WriteTo", "concurrent Reader (ConcurrencyOption(2)): one byte of a two-block frame with both checksums complemented with 0x55 at 10 (thorough: every) position(s), under every schedule with at most 2 delays", "oracle: reference parser on exactly the bytes the Reader consumed (concatenated legacy frames and the documented kernel size trailer accepted)"}
		}, Outside: frame2Outside, Assumptions: append([]string{"mutation values are enumerated, and frame content is concrete in the mutation family: a symbolic byte under XXH32 comparisons only poses collision searches the solvers do not finish"}, frameAssumptions...),
		Filter: func(id string) bool { return hasPrefix(id, "accept-") }}
	checkDefs["C07"] = &CheckDef{Property: "C07",
		Jobs: func(tier string) []*Job {
			return append(append(streamJobs(tier), repeatJobs(tier)...), concStreamJobs(tier)...)
		},
		Bounds: func(tier string) []string {
			return []string{"the same arbitrary streams (4..9 symbolic bytes after a valid header, and the other shapes) read by a Reader with ConcurrencyOption(2) under every schedule with at most one delay: no deadlock (every call returns), no panic in a library goroutine", "arbitrary streams as in C05; k = 1, 40, 90 repetitions of a legacy magic / empty skippable frame (recursion depth must not grow with k; natively replayed with k = 30 million)", "implicit obligations on every path: no escaping panic, every loop within its unwinding bound, call depth <= 48, every single allocation <= 8 MiB + 64 bytes whatever the symbolic fields"}
		}, Outside: append([]string{"concurrent Reader: schedules with more than one delay, streams longer than 10 bytes after the header, concurrency above 2; heap growth in concurrent mode"}, frame2Outside...), Assumptions: append([]string{concAssumptions[0], concAssumptions[1]}, frameAssumptions...),
		Filter: func(id string) bool {
			return id == "conc-deadlock" || hasPrefix(id, "stream-") || hasPrefix(id, "repeat-") || hasPrefix(id, "no-panic") || hasPrefix(id, "unwind") || hasPrefix(id, "alloc-")
		}}
	checkDefs["C15"] = &CheckDef{Property: "C15",
		Jobs: func(tier string) []*Job {
			jobs := append(faultJobs(tier), concWriterFaultJobs(tier)...)
			for _, j := range concReaderJobs(tier) {
				if j.Params["dmg"] == 3 {
					jobs = append(jobs, j)
				}
			}
			return jobs
		},
		Bounds: func(string) []string {
			return []string{tmpl, "writer faults: the failing call index of the sink is chosen symbolically among all calls of the fault-free run (Write/Flush/Close and ReadFrom deliveries); reader faults: failing call index of the source chosen symbolically, under 4 fragmentation modes (fill, single bytes, data with io.EOF, zero-length reads) and 3 read-back modes; the injected source failure is a plain error or an error that wraps io.EOF",
				"concurrent operation (ConcurrencyOption(2), thorough also 3): sink failing at call 0..5 (0..7) of six call sequences and ReadFrom source failing at call 0..1, under every schedule with at most 1 (thorough 2) delays: the failure is returned by some call, nothing is written after it, the sink holds a prefix of the sequential fault-free output; concurrent Reader with the source failing at call 0..7: never a clean end"}
		}, Outside: frame2Outside, Assumptions: frameAssumptions,
		Filter: func(id string) bool { return hasPrefix(id, "cfault-") || hasPrefix(id, "wfault-") || hasPrefix(id, "rfault-") || hasPrefix(id, "rfrag-") || hasPrefix(id, "no-panic") || hasPrefix(id, "unwind") }}
	checkDefs["C16"] = &CheckDef{Property: "C16", Jobs: depJobs,
		Bounds: func(string) []string {
			return []string{"hand-assembled frames with BlockIndependence = 0: preceding block sizes {3,5} {40000x2} {65536,1} {65536,65536,1} {40000x4} {70000}, stored or literal-only compressed, then one compressed block whose match has offset in {1, len(prev), len(prev)+1, 65534, 65535, everything} and length {4, 20, 300}; the bytes the match reads, the literals and the tail are symbolic, the rest concrete filler; content checksum on/off; Read (>= block, 1000-byte buffers), WriteTo; ConcurrencyOption(4) must fall back silently", "the Reader's 32-bit decoded-bytes counter advanced by a symbolic 32-bit amount after the first 64 KiB block (layouts {65536,1} and {65536,65536,1}): decoding must not depend on it (streams longer than 4 GiB)"}
		}, Outside: []string{"4 MiB blocks, more than 5 blocks, symbolic offsets across the window (case-split instead)"}, Assumptions: frameAssumptions}
	checkDefs["C17"] = &CheckDef{Property: "C17", Jobs: lifeJobs,
		Bounds: func(tier string) []string {
			L := 4
			if tier == "thorough" {
				L = 5
			}
			return []string{fmt.Sprintf("every sequence of %d calls; Writer alphabet {Apply(toggle block checksum), Write(2 symbolic bytes), ReadFrom(1 byte), Flush, Close, Reset(new sink), Reset(same sink)}; Reader alphabet {Read(3), Read(>= block), Read(empty buffer), WriteTo, Size, Reset(new source)} over a valid frame followed by 0/3/8 trailing bytes; opcodes chosen symbolically, compared after every call with the reference model of the statement", L),
				"concurrent Reader (ConcurrencyOption(2)): every sequence of 3 calls (thorough 4) of the Reader alphabet, including Reset before the end of the stream, under every schedule with at most 1 delay (thorough also 3 calls / 2 delays), same model",
				"concurrent Writer whose first sink fails at call 1..3: every sequence of 3 calls under every schedule with at most 1 delay returns (no deadlock), and after Reset the model applies again",
				"concurrent Writer (ConcurrencyOption 2 and 3): every sequence of 4 calls under every schedule with at most 1 delay and of 3 calls with at most 2 (thorough: 4 calls / 2 delays, 5 calls / 1 delay), same model minus the sequential-only Flush clause; the sink is inspected only after Close or Reset",
				"Reset scenarios: {nothing, Write, Flush, ReadFrom} x {closed, not closed} on a Writer with block size A, then Reset, Apply(BlockSizeOption(B)), a 70000-byte input and Close, for (A,B) in {(4M,64K),(64K,256K),(256K,64K),(64K,64K)}: output must equal a brand-new Writer's and be a valid frame with block size B"}
		}, Outside: []string{"longer sequences; options other than block checksum in Apply"}, Assumptions: append([]string{concAssumptions[0], concAssumptions[1], "after a rejected Apply (options after the first write) the object may be failed: the model then only requires that calls return"}, frameAssumptions...),
		Filter: func(id string) bool {
			return id == "conc-deadlock" || hasPrefix(id, "w-") || hasPrefix(id, "w2-") || hasPrefix(id, "r-") || hasPrefix(id, "no-panic") || hasPrefix(id, "unwind")
		}}
	checkDefs["C18"] = &CheckDef{Property: "C18", Jobs: creaderJobs,
		Bounds: func(tier string) []string {
			return []string{"sources of 0..5 symbolic bytes and 40/70-byte compressible inputs, options block size x block checksum x content checksum x content size x level; the first 3 (thorough 4) Read calls use a buffer size chosen symbolically from {0,1,3,6,7,8,40,70000}, then 64-byte buffers until the end; source fragmentation 4 modes; source failing at a symbolic call index"}
		}, Outside: []string{"longer sources, more symbolic buffer sizes"}, Assumptions: frameAssumptions,
		Filter: func(id string) bool { return hasPrefix(id, "cr-") || hasPrefix(id, "no-panic") || hasPrefix(id, "unwind") }}
}
