package main

import "errors"

type AsmFunc struct{}

func (a *AsmFunc) NumInstrs() int { return 0 }

func parseAsmFile(path, fn string, consts map[string]int64) (*AsmFunc, error) {
	return nil, errors.New("asmsym not built yet")
}

func (ex *Exec) asmDecodeBlock(dst, src, dict Slice) Value {
	panic(unsupported("asmsym not built yet"))
}
