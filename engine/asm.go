package main

// asmsym: symbolic executor for the Plan 9 amd64 assembly of
// internal/lz4block/decode_amd64.s (parsed from /repo on every run).

import (
	"fmt"
	"os"
	"regexp"
	"strconv"
	"strings"
)

type asmOpKind int

const (
	aReg asmOpKind = iota
	aXReg
	aImm
	aMem   // disp(base)(index*scale)
	aFP    // name+off(FP)
	aSP    // off(SP)
	aLabel // jump target
	aSym   // runtime·memmove(SB)
)

type asmOperand struct {
	kind  asmOpKind
	reg   string
	imm   int64
	base  string
	index string
	scale int64
	disp  int64
	name  string
}

type asmInstr struct {
	op   string
	args []asmOperand
	line int
	text string
}

type AsmFunc struct {
	name   string
	instrs []asmInstr
	labels map[string]int
	frame  int
	file   string
}

func (a *AsmFunc) NumInstrs() int {
	if a == nil {
		return 0
	}
	return len(a.instrs)
}

var gprNames = map[string]bool{"AX": true, "BX": true, "CX": true, "DX": true, "SI": true, "DI": true, "BP": true,
	"R8": true, "R9": true, "R10": true, "R11": true, "R12": true, "R13": true, "R14": true, "R15": true}

var xregRe = regexp.MustCompile(`^X([0-9]|1[0-5])$`)
var memRe = regexp.MustCompile(`^(-?[0-9a-fA-FxX]*|const_[A-Za-z0-9_]+)?\(([A-Z0-9]+)\)(?:\(([A-Z0-9]+)\*([1248])\))?$`)
var fpRe = regexp.MustCompile(`^([A-Za-z0-9_]+)\+(-?[0-9]+)\(FP\)$`)

func parseAsmFile(path, fn string, consts map[string]int64) (*AsmFunc, error) {
	b, err := os.ReadFile(path)
	if err != nil {
		return nil, err
	}
	lines := strings.Split(string(b), "\n")
	af := &AsmFunc{name: fn, labels: map[string]int{}, file: path}
	in := false
	for ln, raw := range lines {
		line := raw
		if i := strings.Index(line, "//"); i >= 0 {
			line = line[:i]
		}
		line = strings.TrimSpace(line)
		if line == "" || strings.HasPrefix(line, "#") {
			continue
		}
		if strings.HasPrefix(line, "TEXT") {
			if in {
				break
			}
			if strings.Contains(line, "·"+fn+"(SB)") {
				in = true
				// frame size: $48-80
				if i := strings.LastIndex(line, "$"); i >= 0 {
					fs := line[i+1:]
					if j := strings.Index(fs, "-"); j >= 0 {
						fs = fs[:j]
					}
					af.frame, _ = strconv.Atoi(strings.TrimSpace(fs))
				}
			}
			continue
		}
		if !in {
			continue
		}
		if strings.HasSuffix(line, ":") {
			af.labels[strings.TrimSuffix(line, ":")] = len(af.instrs)
			continue
		}
		// mnemonic and operands
		fields := strings.SplitN(line, " ", 2)
		op := strings.TrimSpace(fields[0])
		if i := strings.IndexAny(op, "\t"); i >= 0 {
			rest := op[i+1:]
			op = op[:i]
			if len(fields) > 1 {
				fields[1] = rest + " " + fields[1]
			} else {
				fields = append(fields, rest)
			}
		}
		ins := asmInstr{op: op, line: ln + 1, text: line}
		if len(fields) > 1 {
			for _, a := range splitOperands(fields[1]) {
				o, err := parseOperand(strings.TrimSpace(a), consts)
				if err != nil {
					return nil, fmt.Errorf("%s:%d: %v (in %q)", path, ln+1, err, line)
				}
				ins.args = append(ins.args, o)
			}
		}
		af.instrs = append(af.instrs, ins)
	}
	if !in {
		return nil, fmt.Errorf("TEXT ·%s not found in %s", fn, path)
	}
	return af, nil
}

func splitOperands(s string) []string {
	var out []string
	depth := 0
	cur := strings.Builder{}
	for _, c := range s {
		switch c {
		case '(':
			depth++
		case ')':
			depth--
		case ',':
			if depth == 0 {
				out = append(out, cur.String())
				cur.Reset()
				continue
			}
		}
		cur.WriteRune(c)
	}
	if strings.TrimSpace(cur.String()) != "" {
		out = append(out, cur.String())
	}
	return out
}

func parseNum(s string, consts map[string]int64) (int64, error) {
	if s == "" {
		return 0, nil
	}
	if v, ok := consts[s]; ok {
		return v, nil
	}
	neg := false
	if strings.HasPrefix(s, "-") {
		neg = true
		s = s[1:]
	}
	v, err := strconv.ParseInt(s, 0, 64)
	if err != nil {
		u, err2 := strconv.ParseUint(s, 0, 64)
		if err2 != nil {
			return 0, fmt.Errorf("bad number %q", s)
		}
		v = int64(u)
	}
	if neg {
		v = -v
	}
	return v, nil
}

func parseOperand(s string, consts map[string]int64) (asmOperand, error) {
	if gprNames[s] {
		return asmOperand{kind: aReg, reg: s}, nil
	}
	if xregRe.MatchString(s) {
		return asmOperand{kind: aXReg, reg: s}, nil
	}
	if strings.HasPrefix(s, "$") {
		v, err := parseNum(s[1:], consts)
		if err != nil {
			return asmOperand{}, err
		}
		return asmOperand{kind: aImm, imm: v}, nil
	}
	if m := fpRe.FindStringSubmatch(s); m != nil {
		off, _ := strconv.ParseInt(m[2], 10, 64)
		return asmOperand{kind: aFP, name: m[1], disp: off}, nil
	}
	if strings.HasSuffix(s, "(SB)") {
		return asmOperand{kind: aSym, name: strings.TrimSuffix(s, "(SB)")}, nil
	}
	if m := memRe.FindStringSubmatch(s); m != nil {
		disp, err := parseNum(m[1], consts)
		if err != nil {
			return asmOperand{}, err
		}
		if m[2] == "SP" && m[3] == "" {
			return asmOperand{kind: aSP, disp: disp}, nil
		}
		if !gprNames[m[2]] {
			return asmOperand{}, fmt.Errorf("bad base register %q", m[2])
		}
		o := asmOperand{kind: aMem, base: m[2], disp: disp}
		if m[3] != "" {
			if !gprNames[m[3]] {
				return asmOperand{}, fmt.Errorf("bad index register %q", m[3])
			}
			o.index = m[3]
			o.scale, _ = strconv.ParseInt(m[4], 10, 64)
		}
		return o, nil
	}
	if regexp.MustCompile(`^[A-Za-z_][A-Za-z0-9_]*$`).MatchString(s) {
		return asmOperand{kind: aLabel, name: s}, nil
	}
	return asmOperand{}, fmt.Errorf("cannot parse operand %q", s)
}

// ---------- execution ----------

type asmRegion struct {
	name string
	obj  *Object
	off  int // cell offset of element 0
	n    int
	base uint64
	nil_ bool
}

type asmFlags struct {
	kind string // "sub", "add", "logic", "incdec", "" (undefined)
	a, b *Term  // operands (sub: a - b ; add: a + b)
	res  *Term
	cf   *Term // carry preserved by inc/dec
}

type asmState struct {
	ex      *Exec
	fn      *AsmFunc
	regs    map[string]*Term
	xregs   map[string][]*Term
	frame   []*Term // bytes of the local frame; nil = uninitialised
	fl      asmFlags
	regions []*asmRegion
	args    map[int64]*Term // FP slots
	ret     *Term
	visits  map[int]int
}

const (
	// far apart: a region may be as large as the biggest block (8 MiB) plus slack
	asmDstBase  = 0xc000000000
	asmSrcBase  = 0xc100000000
	asmDictBase = 0xc200000000
)

func (ex *Exec) asmDecodeBlock(dst, src, dict Slice) Value {
	af := ex.w.asm
	if af == nil {
		panic(unsupported("cannot encode assembly: " + fmt.Sprint(ex.w.asmErr)))
	}
	ts := ex.ts
	st := &asmState{ex: ex, fn: af, regs: map[string]*Term{}, xregs: map[string][]*Term{}, frame: make([]*Term, af.frame), args: map[int64]*Term{}, visits: map[int]int{}}
	mk := func(name string, s Slice, base uint64, slot int64) {
		r := &asmRegion{name: name, base: base}
		if s.obj == nil {
			r.nil_ = true
			r.base = 0
		} else {
			r.obj = s.obj
			r.off = ex.concInt(s.off)
			r.n = ex.concInt(s.len)
			if r.obj.released {
				ex.useAfterPut("assembly decoder given a buffer released to the pool")
			}
		}
		st.regions = append(st.regions, r)
		st.args[slot] = ts.Const(64, r.base)
		st.args[slot+8] = ts.Const(64, uint64(r.n))
		capv := uint64(r.n)
		if s.obj != nil {
			capv = uint64(ex.concInt(s.cap))
		}
		st.args[slot+16] = ts.Const(64, capv)
	}
	mk("dst", dst, asmDstBase, 0)
	mk("src", src, asmSrcBase, 24)
	mk("dict", dict, asmDictBase, 48)
	st.run()
	if st.ret == nil {
		panic(unsupported("assembly returned without setting the result"))
	}
	return st.ret
}

func (st *asmState) cannot(ins *asmInstr, why string) {
	panic(unsupported(fmt.Sprintf("cannot encode assembly (%s:%d %q): %s", "decode_amd64.s", ins.line, ins.text, why)))
}

func (st *asmState) reg(ins *asmInstr, name string) *Term {
	v, ok := st.regs[name]
	if !ok || v == nil {
		st.ex.asmViolation("asm-uninitialised-or-clobbered-register", fmt.Sprintf("line %d %q reads %s which is undefined here (e.g. clobbered by CALL)", ins.line, ins.text, name), nil)
	}
	if len(st.ex.ts.subst) > 0 && v.op != OpConst {
		if c, ok := st.ex.ts.subst[v]; ok {
			st.regs[name] = c
			return c
		}
	}
	return v
}

func (st *asmState) addr(ins *asmInstr, o asmOperand) *Term {
	ts := st.ex.ts
	a := st.reg(ins, o.base)
	if o.index != "" {
		idx := st.reg(ins, o.index)
		if o.scale != 1 {
			idx = ts.Mul(idx, ts.Const(64, uint64(o.scale)))
		}
		a = ts.Add(a, idx)
	}
	if o.disp != 0 {
		a = ts.Add(a, ts.Const(64, uint64(o.disp)))
	}
	return a
}

// asmViolation reports a failed implicit obligation (with a model) and ends the path.
func (ex *Exec) asmViolation(id, detail string, cond *Term) {
	ex.path.Obligations++
	var r Result
	var tp *Tape
	if cond == nil {
		r, tp = ex.checkViolation()
	} else {
		r, tp = ex.checkViolation(cond)
	}
	if r == Sat && tp != nil {
		tp.Kind = "counterexample"
		tp.Expect.Fail = id
		if id == "alloc-bounded" {
			tp.Expect.Fail = id + ": " + detail // the predicted size is part of what the native run confirms
		}
		ex.path.Failures = append(ex.path.Failures, Failure{ID: id + ": " + detail, Tape: tp})
	} else if r == Unknown {
		ex.path.Inconclusive = append(ex.path.Inconclusive, "unknown while deciding "+id)
	}
	ex.abort("assert", id+": "+detail)
}

// locate resolves an access of w bytes at address a to (region, index). Proves the bounds
// obligation first; a satisfiable escape is a C03 counterexample.
func (st *asmState) locate(ins *asmInstr, a *Term, w int, store bool) (*asmRegion, int) {
	ex := st.ex
	ts := ex.ts
	kind := "load"
	if store {
		kind = "store"
	}
	inReg := func(r *asmRegion) *Term {
		if r.nil_ || r.n < w {
			return ts.tFalse
		}
		lo := ts.Const(64, r.base)
		hi := ts.Const(64, r.base+uint64(r.n-w))
		return ts.BAnd(ts.Ule(lo, a), ts.Ule(a, hi))
	}
	if !a.IsConst() {
		ok := ts.tFalse
		for _, r := range st.regions {
			if store && r.name != "dst" {
				continue
			}
			ok = ts.BOr(ok, inReg(r))
		}
		ex.path.Asserts++
		if !ok.IsTrue() {
			ex.path.Obligations++
			res, tp := ex.checkViolation(ts.BNot(ok))
			switch res {
			case Sat:
				if tp != nil {
					tp.Kind = "counterexample"
					tp.Expect.Fail = "asm-" + kind + "-in-bounds"
					ex.path.Failures = append(ex.path.Failures, Failure{ID: fmt.Sprintf("asm-%s-in-bounds: line %d %q: %d-byte %s can fall outside the slices", kind, ins.line, ins.text, w, kind), Tape: tp})
				}
				ex.abort("assert", "assembly "+kind+" out of bounds")
			case Unknown:
				ex.path.Inconclusive = append(ex.path.Inconclusive, "unknown on asm bounds obligation")
			default:
				ex.path.Discharged++
			}
			if !ex.feasible(ok) {
				ex.abort("dead", "")
			}
			ex.assertPC(ok)
		}
		v := ex.concretize(a)
		a = ts.Const(64, v)
	}
	av := a.val
	for _, r := range st.regions {
		if r.nil_ {
			continue
		}
		if store && r.name != "dst" {
			continue
		}
		if av >= r.base && av+uint64(w) <= r.base+uint64(r.n) {
			return r, int(av - r.base)
		}
	}
	ex.path.Asserts++
	ex.asmViolation("asm-"+kind+"-in-bounds", fmt.Sprintf("line %d %q: %d-byte %s at %#x is outside the slices", ins.line, ins.text, w, kind, av), nil)
	return nil, 0
}

func (st *asmState) loadMem(ins *asmInstr, o asmOperand, w int) []*Term {
	ex := st.ex
	switch o.kind {
	case aMem:
		r, i := st.locate(ins, st.addr(ins, o), w, false)
		out := make([]*Term, w)
		for k := 0; k < w; k++ {
			out[k] = ex.readCell(r.obj, r.off+i+k).(*Term)
		}
		return out
	case aSP:
		out := make([]*Term, w)
		for k := 0; k < w; k++ {
			idx := int(o.disp) + k
			if idx < 0 || idx >= len(st.frame) || st.frame[idx] == nil {
				st.cannot(ins, "read of uninitialised or out-of-frame stack slot")
			}
			out[k] = st.frame[idx]
		}
		return out
	case aFP:
		v, ok := st.args[o.disp]
		if !ok {
			st.cannot(ins, "unknown FP slot")
		}
		return splitBytes(ex.ts, v, w)
	}
	st.cannot(ins, "unsupported memory operand")
	return nil
}

func (st *asmState) storeMem(ins *asmInstr, o asmOperand, bytes []*Term) {
	ex := st.ex
	switch o.kind {
	case aMem:
		r, i := st.locate(ins, st.addr(ins, o), len(bytes), true)
		for k, b := range bytes {
			ex.writeCell(r.obj, r.off+i+k, b)
		}
	case aSP:
		for k, b := range bytes {
			idx := int(o.disp) + k
			if idx < 0 || idx >= len(st.frame) {
				ex.asmViolation("asm-store-in-bounds", fmt.Sprintf("line %d %q: store outside the %d-byte frame", ins.line, ins.text, len(st.frame)), nil)
			}
			st.frame[idx] = b
		}
	case aFP:
		if o.name == "ret" {
			st.ret = joinBytes(ex.ts, bytes)
			return
		}
		st.cannot(ins, "store to argument slot")
	default:
		st.cannot(ins, "unsupported store operand")
	}
}

func splitBytes(ts *TermStore, v *Term, w int) []*Term {
	out := make([]*Term, w)
	for k := 0; k < w; k++ {
		out[k] = ts.Extract(v, uint8(8*k+7), uint8(8*k))
	}
	return out
}

func joinBytes(ts *TermStore, bs []*Term) *Term {
	acc := bs[0]
	for k := 1; k < len(bs); k++ {
		acc = ts.Concat(bs[k], acc)
	}
	return acc
}

// rd reads operand as a w-byte value zero-extended to 64 bits.
func (st *asmState) rd(ins *asmInstr, o asmOperand, w int) *Term {
	ts := st.ex.ts
	switch o.kind {
	case aReg:
		v := st.reg(ins, o.reg)
		if w == 8 {
			return v
		}
		return ts.ZExt(ts.Extract(v, uint8(8*w-1), 0), 64)
	case aImm:
		return ts.Const(64, uint64(o.imm)&mask(uint8(8*w)))
	case aMem, aSP, aFP:
		return ts.ZExt(joinBytes(ts, st.loadMem(ins, o, w)), 64)
	}
	st.cannot(ins, "unsupported source operand")
	return nil
}

// wr writes the low w bytes of v to operand. zeroUpper: 32-bit writes clear the upper half.
func (st *asmState) wr(ins *asmInstr, o asmOperand, v *Term, w int) {
	ts := st.ex.ts
	switch o.kind {
	case aReg:
		switch w {
		case 8:
			st.regs[o.reg] = v
		case 4:
			st.regs[o.reg] = ts.ZExt(ts.Extract(v, 31, 0), 64)
		default:
			old, ok := st.regs[o.reg]
			if !ok || old == nil {
				// partial write to an undefined register: upper bits stay undefined; model as fresh zero
				// is unsound, so refuse unless fully defined.
				old = ts.Const(64, 0)
				st.regs[o.reg+"#partial"] = ts.tTrue
			}
			st.regs[o.reg] = ts.Concat(ts.Extract(old, 63, uint8(8*w)), ts.Extract(v, uint8(8*w-1), 0))
		}
	case aMem, aSP, aFP:
		st.storeMem(ins, o, splitBytes(ts, v, w))
	default:
		st.cannot(ins, "unsupported destination operand")
	}
}

func (st *asmState) setFlagsSub(a, b *Term, w int) {
	ts := st.ex.ts
	wa, wb := a, b
	if w < 8 {
		wa = ts.Extract(a, uint8(8*w-1), 0)
		wb = ts.Extract(b, uint8(8*w-1), 0)
	}
	st.fl = asmFlags{kind: "sub", a: wa, b: wb, res: ts.Sub(wa, wb)}
}

func (st *asmState) setFlagsAdd(a, b *Term, w int) {
	ts := st.ex.ts
	wa, wb := a, b
	if w < 8 {
		wa = ts.Extract(a, uint8(8*w-1), 0)
		wb = ts.Extract(b, uint8(8*w-1), 0)
	}
	st.fl = asmFlags{kind: "add", a: wa, b: wb, res: ts.Add(wa, wb)}
}

func (st *asmState) setFlagsLogic(res *Term, w int) {
	ts := st.ex.ts
	if w < 8 {
		res = ts.Extract(res, uint8(8*w-1), 0)
	}
	st.fl = asmFlags{kind: "logic", res: res}
}

func (st *asmState) cond(ins *asmInstr, cc string) *Term {
	ts := st.ex.ts
	f := st.fl
	if f.kind == "" {
		st.cannot(ins, "conditional jump on undefined flags")
	}
	msb := func(t *Term) *Term { return ts.Eq(ts.Extract(t, t.w-1, t.w-1), ts.Const(1, 1)) }
	var cf, zf, sf, of *Term
	zf = ts.Eq(f.res, ts.Const(f.res.w, 0))
	sf = msb(f.res)
	switch f.kind {
	case "sub":
		cf = ts.Ult(f.a, f.b)
		// OF: operands have different signs and result sign differs from a
		of = ts.BAnd(ts.Ne(msb(f.a), msb(f.b)), ts.Ne(msb(f.res), msb(f.a)))
	case "add":
		cf = ts.Ult(f.res, f.a)
		of = ts.BAnd(ts.Eq(msb(f.a), msb(f.b)), ts.Ne(msb(f.res), msb(f.a)))
	case "logic":
		cf, of = ts.tFalse, ts.tFalse
	case "incdec":
		cf = f.cf
		of = nil
	}
	need := func(t *Term, what string) *Term {
		if t == nil {
			st.cannot(ins, "flag "+what+" is not defined here")
		}
		return t
	}
	lt := func() *Term {
		if f.kind == "sub" {
			return ts.Slt(f.a, f.b)
		}
		return ts.Ne(sf, need(of, "OF"))
	}
	switch cc {
	case "JE", "JEQ", "JZ":
		return zf
	case "JNE", "JNZ":
		return ts.BNot(zf)
	case "JA", "JHI":
		return ts.BAnd(ts.BNot(need(cf, "CF")), ts.BNot(zf))
	case "JAE", "JCC", "JNC":
		return ts.BNot(need(cf, "CF"))
	case "JB", "JC", "JCS", "JLO":
		return need(cf, "CF")
	case "JBE", "JLS":
		return ts.BOr(need(cf, "CF"), zf)
	case "JS", "JMI":
		return sf
	case "JNS", "JPL":
		return ts.BNot(sf)
	case "JLT", "JL":
		return lt()
	case "JGE":
		return ts.BNot(lt())
	case "JLE":
		return ts.BOr(zf, lt())
	case "JGT", "JG":
		return ts.BAnd(ts.BNot(zf), ts.BNot(lt()))
	}
	st.cannot(ins, "unsupported condition "+cc)
	return nil
}

func opWidth(op string) (string, int) {
	// returns (stem, width in bytes)
	for _, sfx := range []struct {
		s string
		w int
	}{{"Q", 8}, {"L", 4}, {"W", 2}, {"B", 1}} {
		if strings.HasSuffix(op, sfx.s) {
			return strings.TrimSuffix(op, sfx.s), sfx.w
		}
	}
	return op, 8
}

func (st *asmState) memmove(ins *asmInstr) {
	ex := st.ex
	ts := ex.ts
	get := func(off int) *Term {
		bs := make([]*Term, 8)
		for k := 0; k < 8; k++ {
			if st.frame[off+k] == nil {
				st.cannot(ins, "memmove argument slot not initialised")
			}
			bs[k] = st.frame[off+k]
		}
		return joinBytes(ts, bs)
	}
	to, from, n := get(0), get(8), get(16)
	// n must be bounded by the regions: prove both ranges in bounds, for every n
	inRange := func(a *Term, store bool) *Term {
		ok := ts.tFalse
		for _, r := range st.regions {
			if r.nil_ || (store && r.name != "dst") {
				continue
			}
			lo := ts.Const(64, r.base)
			end := ts.Const(64, r.base+uint64(r.n))
			// lo <= a && a <= end && n <= end - a
			c := ts.BAnd(ts.BAnd(ts.Ule(lo, a), ts.Ule(a, end)), ts.Ule(n, ts.Sub(end, a)))
			ok = ts.BOr(ok, c)
		}
		// a zero-length move touches nothing
		return ts.BOr(ok, ts.Eq(n, ts.Const(64, 0)))
	}
	for _, chk := range []struct {
		a     *Term
		store bool
		what  string
	}{{from, false, "load"}, {to, true, "store"}} {
		ok := inRange(chk.a, chk.store)
		ex.path.Asserts++
		if ok.IsTrue() {
			continue
		}
		ex.path.Obligations++
		res, tp := ex.checkViolation(ts.BNot(ok))
		switch res {
		case Sat:
			if tp != nil {
				tp.Kind = "counterexample"
				tp.Expect.Fail = "asm-" + chk.what + "-in-bounds"
				ex.path.Failures = append(ex.path.Failures, Failure{ID: fmt.Sprintf("asm-%s-in-bounds: line %d memmove %s range can fall outside the slices", chk.what, ins.line, chk.what), Tape: tp})
			}
			ex.abort("assert", "memmove out of bounds")
		case Unknown:
			ex.path.Inconclusive = append(ex.path.Inconclusive, "unknown on memmove bounds obligation")
		default:
			ex.path.Discharged++
		}
		if !ex.feasible(ok) {
			ex.abort("dead", "")
		}
		ex.assertPC(ok)
	}
	nv := int(ex.concretize(n))
	if nv > 0 {
		tov := ex.concretize(to)
		fromv := ex.concretize(from)
		find := func(av uint64, store bool) (*asmRegion, int) {
			for _, r := range st.regions {
				if r.nil_ || (store && r.name != "dst") {
					continue
				}
				if av >= r.base && av+uint64(nv) <= r.base+uint64(r.n) {
					return r, int(av - r.base)
				}
			}
			ex.asmViolation("asm-load-in-bounds", fmt.Sprintf("line %d memmove range [%#x,+%d) outside the slices", ins.line, av, nv), nil)
			return nil, 0
		}
		sr, si := find(fromv, false)
		dr, di := find(tov, true)
		tmp := make([]Value, nv)
		for k := 0; k < nv; k++ {
			tmp[k] = ex.readCell(sr.obj, sr.off+si+k)
		}
		for k := 0; k < nv; k++ {
			ex.writeCell(dr.obj, dr.off+di+k, tmp[k])
		}
	}
	// ABI0: every register except SP is caller-saved; flags too
	for r := range st.regs {
		delete(st.regs, r)
	}
	for r := range st.xregs {
		delete(st.xregs, r)
	}
	st.fl = asmFlags{}
	// the argument area of the callee's frame may be overwritten by the callee
	for k := 0; k < 24 && k < len(st.frame); k++ {
		if k < 16 {
			st.frame[k] = nil
		}
	}
	// 16(SP) is re-read by the real code after one of the calls (copy_size); Go's memmove does not
	// modify its stack arguments in practice, but ABI0 allows it: keep 16..23 as they were.
}

func (st *asmState) run() {
	ex := st.ex
	ts := ex.ts
	pc := 0
	fn := st.fn
	for {
		if pc >= len(fn.instrs) {
			st.cannot(&fn.instrs[len(fn.instrs)-1], "fell off the end of the function")
		}
		ins := &fn.instrs[pc]
		ex.stats.steps++
		if ex.stats.steps > ex.maxSteps {
			ex.abort("steps", "step budget exhausted in assembly")
		}
		next := pc + 1
		op := ins.op
		jump := func(o asmOperand) int {
			if o.kind != aLabel {
				st.cannot(ins, "jump target is not a label")
			}
			t, ok := fn.labels[o.name]
			if !ok {
				st.cannot(ins, "unknown label "+o.name)
			}
			st.visits[t]++
			if st.visits[t] > int(ex.unwind) {
				ex.event("unwind", fmt.Sprintf("assembly label %s visited more than %d times", o.name, ex.unwind))
				ex.abort("unwind", "loop bound exceeded at assembly label "+o.name)
			}
			return t
		}
		switch {
		case op == "RET":
			return
		case op == "JMP":
			next = jump(ins.args[0])
		case op == "CALL":
			if len(ins.args) != 1 || ins.args[0].kind != aSym || !strings.Contains(ins.args[0].name, "memmove") {
				st.cannot(ins, "only CALL runtime·memmove is modelled")
			}
			st.memmove(ins)
		case strings.HasPrefix(op, "J"):
			c := st.cond(ins, op)
			if ex.decide(c, false) {
				next = jump(ins.args[0])
			}
		case op == "MOVOU" || op == "MOVUPS":
			src, dst := ins.args[0], ins.args[1]
			var bs []*Term
			if src.kind == aXReg {
				bs = st.xregs[src.reg]
				if bs == nil {
					st.cannot(ins, "read of undefined XMM register")
				}
			} else {
				bs = st.loadMem(ins, src, 16)
			}
			if dst.kind == aXReg {
				st.xregs[dst.reg] = bs
			} else {
				st.storeMem(ins, dst, bs)
			}
		case op == "MOVBLZX" || op == "MOVBQZX":
			st.wr(ins, ins.args[1], st.rd(ins, ins.args[0], 1), 8)
		case op == "MOVWLZX" || op == "MOVWQZX":
			st.wr(ins, ins.args[1], st.rd(ins, ins.args[0], 2), 8)
		case op == "MOVLQZX":
			st.wr(ins, ins.args[1], st.rd(ins, ins.args[0], 4), 8)
		case op == "MOVQ" || op == "MOVL" || op == "MOVW" || op == "MOVB":
			_, w := opWidth(op)
			v := st.rd(ins, ins.args[0], w)
			if ins.args[0].kind == aImm && w == 8 {
				v = ts.Const(64, uint64(ins.args[0].imm))
			}
			st.wr(ins, ins.args[1], v, w)
		case op == "LEAQ":
			if ins.args[0].kind != aMem {
				st.cannot(ins, "LEAQ source")
			}
			st.wr(ins, ins.args[1], st.addr(ins, ins.args[0]), 8)
		case op == "ADDQ" || op == "ADDL":
			_, w := opWidth(op)
			a := st.rd(ins, ins.args[1], w)
			b := st.rd(ins, ins.args[0], w)
			st.setFlagsAdd(a, b, w)
			st.wr(ins, ins.args[1], ts.Add(a, b), w)
		case op == "SUBQ" || op == "SUBL":
			_, w := opWidth(op)
			a := st.rd(ins, ins.args[1], w)
			b := st.rd(ins, ins.args[0], w)
			st.setFlagsSub(a, b, w)
			st.wr(ins, ins.args[1], ts.Sub(a, b), w)
		case op == "CMPQ" || op == "CMPL" || op == "CMPW" || op == "CMPB":
			_, w := opWidth(op)
			a := st.rd(ins, ins.args[0], w)
			b := st.rd(ins, ins.args[1], w)
			st.setFlagsSub(a, b, w)
		case op == "TESTQ" || op == "TESTL" || op == "TESTW" || op == "TESTB":
			_, w := opWidth(op)
			a := st.rd(ins, ins.args[0], w)
			b := st.rd(ins, ins.args[1], w)
			st.setFlagsLogic(ts.And(a, b), w)
		case op == "ANDQ" || op == "ANDL" || op == "ORQ" || op == "ORL" || op == "XORQ" || op == "XORL":
			stem, w := opWidth(op)
			var r *Term
			if stem == "XOR" && ins.args[0].kind == aReg && ins.args[1].kind == aReg && ins.args[0].reg == ins.args[1].reg {
				r = ts.Const(64, 0) // zeroing idiom: defined even if the register was clobbered
			} else {
				a := st.rd(ins, ins.args[1], w)
				b := st.rd(ins, ins.args[0], w)
				switch stem {
				case "AND":
					r = ts.And(a, b)
				case "OR":
					r = ts.Or(a, b)
				default:
					r = ts.Xor(a, b)
				}
			}
			st.setFlagsLogic(r, w)
			st.wr(ins, ins.args[1], r, w)
		case op == "INCQ" || op == "DECQ" || op == "INCL" || op == "DECL":
			_, w := opWidth(op)
			a := st.rd(ins, ins.args[0], w)
			var r *Term
			if strings.HasPrefix(op, "INC") {
				r = ts.Add(a, ts.Const(64, 1))
			} else {
				r = ts.Sub(a, ts.Const(64, 1))
			}
			res := r
			if w < 8 {
				res = ts.Extract(r, uint8(8*w-1), 0)
			}
			st.fl = asmFlags{kind: "incdec", res: res}
			st.wr(ins, ins.args[0], r, w)
		case op == "NEGQ":
			a := st.rd(ins, ins.args[0], 8)
			st.setFlagsSub(ts.Const(64, 0), a, 8)
			st.wr(ins, ins.args[0], ts.Neg(a), 8)
		case op == "SHLQ" || op == "SHLL" || op == "SHRQ" || op == "SHRL" || op == "SARQ" || op == "SARL":
			stem, w := opWidth(op)
			if ins.args[0].kind != aImm {
				st.cannot(ins, "shift by register")
			}
			k := uint64(ins.args[0].imm) & 63
			if w == 4 {
				k &= 31
			}
			a := st.rd(ins, ins.args[1], w)
			var r *Term
			bw := uint8(8 * w)
			av := ts.Extract(a, bw-1, 0)
			switch stem {
			case "SHL":
				r = ts.Bin(OpShl, av, ts.Const(bw, k))
			case "SHR":
				r = ts.Bin(OpLShr, av, ts.Const(bw, k))
			default:
				r = ts.Bin(OpAShr, av, ts.Const(bw, k))
			}
			st.fl = asmFlags{} // flags after shifts are not modelled
			st.wr(ins, ins.args[1], ts.ZExt(r, 64), w)
		default:
			st.cannot(ins, "unsupported mnemonic "+op)
		}
		pc = next
	}
}
