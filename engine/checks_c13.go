package main

import "fmt"

func init() {
	checkDefs["C13"] = &CheckDef{
		Property: "C13",
		Jobs: func(tier string) []*Job {
			N, M, S := 48, 40, 20
			if tier == "thorough" {
				N, M, S = 128, 80, 34
			}
			var jobs []*Job
			tags := "verif,noasm"
			for n := 0; n <= N; n++ {
				jobs = append(jobs, mkJob(fmt.Sprintf("oneshot-n%d", n), "H_C13_oneshot", "internal/xxh32", tags, P("n", n)))
			}
			for b := 0; b < 16; b++ {
				jobs = append(jobs, mkJob(fmt.Sprintf("base-b%d", b), "H_C13_base", "internal/xxh32", tags, P("bufused", b)))
				j := mkJob(fmt.Sprintf("stepsum-b%d", b), "H_C13_step_sum", "internal/xxh32", tags, P("bufused", b))
				j.Artificial = true
				jobs = append(jobs, j)
				for m := 0; m <= M; m++ {
					j := mkJob(fmt.Sprintf("stepwrite-b%d-m%d", b, m), "H_C13_step_write", "internal/xxh32", tags, P("bufused", b, "m", m))
					j.Artificial = true
					jobs = append(jobs, j)
				}
			}
			// public-API splits
			for _, n := range []int{0, 1, 3, 4, 15, 16, 17, 31, 32, 33, S} {
				for k1 := 0; k1 <= n; k1++ {
					for k2 := k1; k2 <= n; k2++ {
						if tier == "quick" && n > 17 && (k1%5 != 1 || k2%7 != 3) && !(k1 == 0 && k2 == n) {
							continue
						}
						jobs = append(jobs, mkJob(fmt.Sprintf("split-n%d-%d-%d", n, k1, k2), "H_C13_split", "internal/xxh32", tags, P("n", n, "k1", k1, "k2", k2)))
					}
				}
			}
			return jobs
		},
		Bounds: func(tier string) []string {
			N, M := 48, 40
			if tier == "thorough" {
				N, M = 128, 80
			}
			return []string{
				fmt.Sprintf("one-shot ChecksumZero: every length 0..%d, all byte contents symbolic", N),
				fmt.Sprintf("streaming, inductive step: pre-state arbitrary (4 lanes x 32 bit, 64-bit total, 16-byte carry buffer symbolic; buffered count 0..15 split), one Write of every length 0..%d with symbolic bytes; Sum32/Sum on every such state; base case zero value and Reset", M),
				"public-API three-way splits of short inputs (all split points) incl. Sum and Reset-reuse",
			}
		},
		Outside: []string{
			"single writes longer than the stated bound (only the 16-byte stripe loop count grows)",
			"wrap of the 64-bit byte counter (2^64 bytes)",
			"ARM assembly variants of the checksum (xxh32zero_arm.s) are not encoded; amd64 uses the Go code",
		},
		Assumptions: []string{
			"relation R between implementation and reference state (see harness hC13State) is the induction hypothesis; pre-states are constructed directly (artificial_state), counterexamples from them are confirmed through the public API by a native long-stream run",
			"reference XXH32 written from the xxHash specification (harness/ref/xxh32.go.tmpl)",
			"encoding/binary.LittleEndian accessors are modelled as exact byte concatenations",
		},
	}
}
