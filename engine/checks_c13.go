package main

import (
	"fmt"
	"strconv"
)

func c13ResetJobs(tier string) []*Job {
	var jobs []*Job
	N := 20
	if tier == "thorough" {
		N = 40
	}
	for n := 0; n <= N; n++ {
		for _, m := range []int{0, 3, 17} {
			if tier != "thorough" && m == 17 && n%4 != 1 {
				continue
			}
			j := mkJob("reset-n"+strconv.Itoa(n)+"-m"+strconv.Itoa(m), "H_C13_reset", "internal/xxh32", "verif", P("n", n, "m", m))
			jobs = append(jobs, j)
		}
	}
	return jobs
}

func init() {
	checkDefs["C13"] = &CheckDef{
		Property: "C13",
		Jobs: func(tier string) []*Job {
			N, M, S := 48, 40, 20
			if tier == "thorough" {
				N, M, S = 128, 80, 34
			}
			var jobs []*Job
			tags := "verif,noasm"
			for n := 0; n <= N; n++ {
				jobs = append(jobs, mkJob(fmt.Sprintf("oneshot-n%d", n), "H_C13_oneshot", "internal/xxh32", tags, P("n", n)))
			}
			for b := 0; b < 16; b++ {
				for m := 0; m <= M; m++ {
					if tier == "quick" && m > 18 && m%3 != 0 {
						continue
					}
					for _, stripes := range []int{0, 1} {
						j := mkJob(fmt.Sprintf("apistep-b%d-s%d-m%d", b, stripes, m), "H_C13_api_step", "internal/xxh32", tags, P("bufused", b, "stripes", stripes, "m", m, "extra", m%2, "m2", (m*7+b)%18))
						jobs = append(jobs, j)
					}
				}
			}
			// public-API splits
			for _, n := range []int{0, 1, 3, 4, 15, 16, 17, 31, 32, 33, S} {
				for k1 := 0; k1 <= n; k1++ {
					for k2 := k1; k2 <= n; k2++ {
						if tier == "quick" && n > 17 && (k1%5 != 1 || k2%7 != 3) && !(k1 == 0 && k2 == n) {
							continue
						}
						jobs = append(jobs, mkJob(fmt.Sprintf("split-n%d-%d-%d", n, k1, k2), "H_C13_split", "internal/xxh32", tags, P("n", n, "k1", k1, "k2", k2)))
					}
				}
			}
			jobs = append(jobs, c13ResetJobs(tier)...)
			return jobs
		},
		Bounds: func(tier string) []string {
			N, M := 48, 40
			if tier == "thorough" {
				N, M = 128, 80
			}
			return []string{
				fmt.Sprintf("one-shot ChecksumZero: every length 0..%d, all byte contents symbolic", N),
				fmt.Sprintf("streaming, step from API-built states: Reset + Write of (0 or 16)+bufused symbolic bytes (bufused 0..15), byte counter then advanced by an arbitrary symbolic multiple of 16 below 2^62, one Write of every length 0..%d (quick: every length to 18, then every third) with symbolic bytes, optional empty Write, Sum32; then a second Write of 0..17 bytes and Sum32", M),
				"public-API three-way splits of short inputs (all split points) incl. Sum and Reset-reuse",
				"Reset after a message of every length 0..20 (thorough 40): Sum32/Sum without a Write, after an empty Write and after a Write of 0/3/17 symbolic bytes equal the reference of what was written since the Reset",
			}
		},
		Outside: []string{
			"single writes longer than the stated bound (only the 16-byte stripe loop count grows)",
			"wrap of the 64-bit byte counter (2^64 bytes)",
			"ARM assembly variants of the checksum (xxh32zero_arm.s) are not encoded; amd64 uses the Go code",
		},
		Assumptions: []string{
			"relation R between implementation and reference state (see harness hC13State) is the induction hypothesis; pre-states are constructed directly (artificial_state), counterexamples from them are confirmed through the public API by a native long-stream run",
			"reference XXH32 written from the xxHash specification (harness/ref/xxh32.go.tmpl)",
			"encoding/binary.LittleEndian accessors are modelled as exact byte concatenations",
		},
	}
}
