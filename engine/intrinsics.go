package main

import (
	"fmt"
	"go/types"
	"math/bits"
	"strings"

	"golang.org/x/tools/go/ssa"
)

// intrinsic intercepts harness primitives (vf*) and modelled environment functions.
func (ex *Exec) intrinsic(caller *Frame, fn *ssa.Function, args []Value) (Value, bool) {
	name := fn.Name()
	if strings.HasPrefix(name, "vf") && fn.Pkg != nil && ex.w.isHarnessFunc(fn) {
		return ex.vfCall(caller, fn, name, args), true
	}
	if fn.Pkg == nil && fn.Blocks != nil {
		return nil, false
	}
	full := fn.String()
	ts := ex.ts
	switch full {
	case "(*sync.Pool).Get":
		return ex.poolGet(caller, args[0].(Pointer)), true
	case "(*sync.Pool).Put":
		ex.poolPut(args[0].(Pointer), args[1])
		return nil, true
	case "(*sync.Mutex).Lock", "(*sync.RWMutex).Lock":
		if ex.conc != nil {
			ex.mutexLock(args[0].(Pointer))
		}
		return nil, true
	case "(*sync.Mutex).Unlock", "(*sync.RWMutex).Unlock":
		if ex.conc != nil {
			ex.mutexUnlock(args[0].(Pointer))
		}
		return nil, true
	case "(*sync.WaitGroup).Add":
		ex.wgAdd(args[0].(Pointer), ex.concInt(args[1]))
		return nil, true
	case "(*sync.WaitGroup).Done":
		ex.wgAdd(args[0].(Pointer), -1)
		return nil, true
	case "(*sync.WaitGroup).Wait":
		ex.wgWait(args[0].(Pointer))
		return nil, true
	case "(*sync.RWMutex).RLock", "(*sync.RWMutex).RUnlock":
		if ex.conc != nil {
			panic(unsupported("RWMutex read locks in concurrent mode"))
		}
		return nil, true
	case "runtime.GOMAXPROCS":
		return ts.Const(64, 4), true
	case "fmt.Errorf":
		return ex.fmtErrorf(caller, args), true
	case "fmt.Sprintf", "fmt.Sprint", "fmt.Sprintln":
		return "<fmt>", true
	case "strconv.Itoa", "strconv.FormatInt", "strconv.FormatUint", "strconv.Quote":
		return "<strconv>", true
	case "errors.Is":
		return ex.errorsIs(caller, args[0].(Iface), args[1].(Iface)), true
	case "(encoding/binary.littleEndian).Uint16":
		return ex.leLoad(args[1].(Slice), 2), true
	case "(encoding/binary.littleEndian).Uint32":
		return ex.leLoad(args[1].(Slice), 4), true
	case "(encoding/binary.littleEndian).Uint64":
		return ex.leLoad(args[1].(Slice), 8), true
	case "(encoding/binary.littleEndian).PutUint16":
		ex.leStore(args[1].(Slice), args[2].(*Term), 2)
		return nil, true
	case "(encoding/binary.littleEndian).PutUint32":
		ex.leStore(args[1].(Slice), args[2].(*Term), 4)
		return nil, true
	case "(encoding/binary.littleEndian).PutUint64":
		ex.leStore(args[1].(Slice), args[2].(*Term), 8)
		return nil, true
	case "math/bits.TrailingZeros64":
		return ex.trailingZeros(args[0].(*Term)), true
	case "math/bits.RotateLeft32":
		x := args[0].(*Term)
		k := args[1].(*Term)
		if !k.IsConst() {
			panic(unsupported("RotateLeft32 by symbolic amount"))
		}
		s := uint64(int(k.SVal())&31) & 31
		if s == 0 {
			return x, true
		}
		return ts.Or(ts.Bin(OpShl, x, ts.Const(32, s)), ts.Bin(OpLShr, x, ts.Const(32, 32-s))), true
	case "github.com/pierrec/lz4/v4/internal/lz4block.blockHash":
		// Summary: an arbitrary function of the low 48 bits with values below htSize (the
		// property-relevant contract of the real body, proved separately by H_hash_contract).
		if x := args[0].(*Term); !x.IsConst() && !ex.job.NoSummary {
			ex.path.Summaries++
			ap := ts.Apply("uf_blockHash", 16, ts.Extract(x, 47, 0))
			ex.apps = append(ex.apps, ap)
			return ts.ZExt(ap, 32), true
		}
	case "github.com/pierrec/lz4/v4/internal/lz4block.blockHashHC":
		if x := args[0].(*Term); !x.IsConst() && !ex.job.NoSummary {
			ex.path.Summaries++
			ap := ts.Apply("uf_blockHashHC", 16, x)
			ex.apps = append(ex.apps, ap)
			return ts.ZExt(ap, 32), true
		}
	case "github.com/pierrec/lz4/v4/internal/lz4block.decodeBlock":
		if fn.Blocks == nil {
			return ex.asmDecodeBlock(args[0].(Slice), args[1].(Slice), args[2].(Slice)), true
		}
	}
	return nil, false
}

// ---------- sync.Pool model: LIFO of explicitly Put values, else New() ----------

func (ex *Exec) poolKey(p Pointer) string {
	return fmt.Sprintf("%d:%d", p.obj.id, p.off.val)
}

func (ex *Exec) poolGet(caller *Frame, p Pointer) Value {
	if ex.pools == nil {
		ex.pools = map[string][]Value{}
	}
	k := ex.poolKey(p)
	if st := ex.pools[k]; len(st) > 0 {
		v := st[len(st)-1]
		ex.pools[k] = st[:len(st)-1]
		ex.setReleased(v, false)
		ex.concPoolGet(k)
		return v
	}
	// call p.New
	st := ex.w.poolType
	l := layoutOf(st)
	fi := -1
	sts := st.Underlying().(*types.Struct)
	for i := 0; i < sts.NumFields(); i++ {
		if sts.Field(i).Name() == "New" {
			fi = i
		}
	}
	nf := ex.readCell(p.obj, int(p.off.val)+l.offs[fi])
	cl, _ := nf.(*Closure)
	if cl == nil {
		return Iface{}
	}
	return ex.callValue(caller, cl, nil, 0)
}

func (ex *Exec) poolPut(p Pointer, v Value) {
	if ex.pools == nil {
		ex.pools = map[string][]Value{}
	}
	if iv, ok := v.(Iface); ok && iv.typ == nil {
		return
	}
	k := ex.poolKey(p)
	ex.pools[k] = append(ex.pools[k], v)
	ex.setReleased(v, true)
	ex.concPoolPut(k)
}

func (ex *Exec) setReleased(v Value, rel bool) {
	iv, ok := v.(Iface)
	if !ok {
		return
	}
	switch x := iv.val.(type) {
	case Pointer:
		if x.obj != nil {
			x.obj.released = rel
		}
	case Slice:
		if x.obj != nil {
			x.obj.released = rel
		}
	}
}

// ---------- fmt.Errorf / errors.Is ----------

func (ex *Exec) fmtErrorf(caller *Frame, args []Value) Value {
	format := args[0].(string)
	va := args[1].(Slice)
	n := 0
	if va.obj != nil {
		n = ex.concInt(va.len)
	}
	// locate %w
	argi := 0
	wi := -1
	for i := 0; i < len(format); i++ {
		if format[i] != '%' {
			continue
		}
		i++
		for i < len(format) && strings.IndexByte("+-# 0123456789.", format[i]) >= 0 {
			i++
		}
		if i >= len(format) {
			break
		}
		if format[i] == '%' {
			continue
		}
		if format[i] == 'w' && wi < 0 {
			wi = argi
		}
		argi++
	}
	msg := "<errorf:" + format + ">"
	if wi < 0 || wi >= n {
		// plain error: &errors.errorString{msg}
		en := ex.w.prog.ImportedPackage("errors").Func("New")
		return ex.callFunction(caller, en, []Value{msg}, nil, nil)
	}
	wrapped := ex.readCell(va.obj, int(va.off.val)+wi*va.es)
	wt := ex.w.wrapErrorType
	o := ex.newObject(wt, 1, "fmt.wrapError")
	ex.writeCell(o, 0, msg)
	ex.writeCell(o, 1, wrapped)
	return Iface{typ: types.NewPointer(wt), val: Pointer{obj: o, off: ex.ts.Const(64, 0)}}
}

func (ex *Exec) errorsIs(caller *Frame, err, target Iface) Value {
	ts := ex.ts
	if err.typ == nil || target.typ == nil {
		return ts.Bool(err.typ == nil && target.typ == nil)
	}
	for depth := 0; depth < 64; depth++ {
		if types.Comparable(target.typ) {
			eq := ex.equal(err, target)
			if ex.decide(eq, false) {
				return ts.tTrue
			}
		}
		// Is method
		if m := ex.lookupMethod(err.typ, nil, "Is"); m != nil && m.Signature.Params().Len() == 1 {
			r := ex.callFunction(caller, m, []Value{err.val, target}, nil, nil).(*Term)
			if ex.decide(r, false) {
				return ts.tTrue
			}
		}
		m := ex.lookupMethod(err.typ, nil, "Unwrap")
		if m == nil || m.Signature.Results().Len() != 1 {
			return ts.tFalse
		}
		if _, isIface := m.Signature.Results().At(0).Type().Underlying().(*types.Interface); !isIface {
			return ts.tFalse
		}
		r := ex.callFunction(caller, m, []Value{err.val}, nil, nil).(Iface)
		if r.typ == nil {
			return ts.tFalse
		}
		err = r
	}
	panic(unsupported("errors.Is chain too deep"))
}

// ---------- encoding/binary & math/bits ----------

func (ex *Exec) leLoad(s Slice, k int) Value {
	ts := ex.ts
	if s.obj == nil {
		ex.goPanic("index out of range [binary on nil slice]")
	}
	ex.boundsCheck(ts.Ult(ts.Const(64, uint64(k-1)), s.len), "index out of range (binary.LittleEndian)")
	var acc *Term
	for i := 0; i < k; i++ {
		p := Pointer{obj: s.obj, off: ts.Add(s.off, ts.Const(64, uint64(i)))}
		if !p.off.IsConst() && s.off.IsConst() {
			// not reachable: off const => p.off const
		}
		if !p.off.IsConst() {
			p.lo, p.st = 0, 1
			p.hi = int32(s.obj.ncells)
		}
		b := ex.loadCellAt(p).(*Term)
		if acc == nil {
			acc = b
		} else {
			acc = ts.Concat(b, acc)
		}
	}
	return acc
}

func (ex *Exec) leStore(s Slice, v *Term, k int) {
	ts := ex.ts
	if s.obj == nil {
		ex.goPanic("index out of range [binary on nil slice]")
	}
	ex.boundsCheck(ts.Ult(ts.Const(64, uint64(k-1)), s.len), "index out of range (binary.LittleEndian)")
	for i := 0; i < k; i++ {
		b := ts.Extract(v, uint8(8*i+7), uint8(8*i))
		off := ts.Add(s.off, ts.Const(64, uint64(i)))
		if off.IsConst() {
			ex.writeCell(s.obj, int(off.val), b)
		} else {
			ex.symWriteCell(s.obj, off, b)
		}
	}
}

func (ex *Exec) trailingZeros(x *Term) Value {
	ts := ex.ts
	if x.IsConst() {
		return ts.Const(64, uint64(bits.TrailingZeros64(x.val)))
	}
	acc := ts.Const(64, 64)
	for i := 63; i >= 0; i-- {
		bit := ts.Extract(x, uint8(i), uint8(i))
		acc = ts.Ite(ts.Eq(bit, ts.Const(1, 1)), ts.Const(64, uint64(i)), acc)
	}
	return acc
}

// ---------- harness primitives ----------

func (ex *Exec) newInput(name string, w uint8, kind string) *Term {
	if ex.fixed != nil {
		// concrete mode: inputs come from a tape
		if ex.fixedPos >= len(ex.fixed) {
			ex.abort("tape", "tape exhausted in concrete mode")
		}
		e := ex.fixed[ex.fixedPos]
		ex.fixedPos++
		c := ex.ts.Const(w, e.V)
		ex.inputs = append(ex.inputs, inputRec{Name: name, T: c, Kind: kind})
		return c
	}
	v := ex.ts.Var(fmt.Sprintf("in%d_%s", len(ex.inputs), sanitize(name)), w)
	ex.inputs = append(ex.inputs, inputRec{Name: name, T: v, Kind: kind})
	ex.sv.declare(v)
	return v
}

func sanitize(s string) string {
	var sb strings.Builder
	for _, c := range s {
		if (c >= 'a' && c <= 'z') || (c >= 'A' && c <= 'Z') || (c >= '0' && c <= '9') || c == '_' {
			sb.WriteRune(c)
		} else {
			sb.WriteByte('_')
		}
	}
	return sb.String()
}

func (ex *Exec) vfCall(caller *Frame, fn *ssa.Function, name string, args []Value) Value {
	ts := ex.ts
	switch name {
	case "vfParam":
		k := args[0].(string)
		v, ok := ex.job.Params[k]
		if !ok {
			panic(fmt.Sprintf("harness %s asks for unknown parameter %q", ex.job.Harness, k))
		}
		return ts.Const(64, uint64(int64(v)))
	case "vfByte":
		return ex.newInput(args[0].(string), 8, "u8")
	case "vfU16":
		return ex.newInput(args[0].(string), 16, "u16")
	case "vfU32":
		return ex.newInput(args[0].(string), 32, "u32")
	case "vfU64":
		return ex.newInput(args[0].(string), 64, "u64")
	case "vfBool":
		return ex.newInput(args[0].(string), 0, "bool")
	case "vfInt":
		v := ex.newInput(args[0].(string), 64, "int")
		lo, hi := args[1].(*Term), args[2].(*Term)
		ex.assume(ts.BAnd(ts.Sle(lo, v), ts.Sle(v, hi)))
		return v
	case "vfChoice":
		n := args[1].(*Term)
		v := ex.newInput(args[0].(string), 64, "int")
		ex.assume(ts.Ult(v, n))
		return ts.Const(64, ex.concretize(v))
	case "vfJitter":
		ex.schedPoint("jitter")
		return nil
	case "vfSettle":
		return ts.Const(64, uint64(ex.settle()))
	case "vfGoroutines":
		n := ex.liveGoroutines()
		if n > 0 {
			ex.event("goroutines-alive", ex.conc.describe())
		}
		return ts.Const(64, uint64(n))
	case "vfConc":
		t := args[0].(*Term)
		return ts.Const(t.w, ex.concretize(t))
	case "vfBytes":
		nm := args[0].(string)
		n := ex.concInt(args[1])
		o := ex.newObject(types.Typ[types.Uint8], n, "vfBytes:"+nm)
		for i := 0; i < n; i++ {
			ex.writeCell(o, i, ex.newInput(fmt.Sprintf("%s_%d", nm, i), 8, "u8"))
		}
		nt := ts.Const(64, uint64(n))
		return Slice{obj: o, off: ts.Const(64, 0), len: nt, cap: nt, es: 1}
	case "vfFillBytes":
		// overwrite an existing slice with fresh symbolic bytes
		nm := args[0].(string)
		s := args[1].(Slice)
		if s.obj == nil {
			return nil
		}
		n := ex.concInt(s.len)
		off := ex.concInt(s.off)
		for i := 0; i < n; i++ {
			ex.writeCell(s.obj, off+i, ex.newInput(fmt.Sprintf("%s_%d", nm, i), 8, "u8"))
		}
		return nil
	case "vfHavocU8", "vfHavocU16", "vfHavocU32", "vfHavocInt":
		nm := args[0].(string)
		s := args[1].(Slice)
		if s.obj == nil {
			return nil
		}
		n := ex.concInt(s.len)
		off := ex.concInt(s.off)
		ew := map[string]uint8{"vfHavocU8": 8, "vfHavocU16": 16, "vfHavocU32": 32, "vfHavocInt": 64}[name]
		if ex.fixed != nil {
			if ex.fixedPos >= len(ex.fixed) {
				ex.abort("tape", "tape exhausted in concrete mode")
			}
			e := ex.fixed[ex.fixedPos]
			ex.fixedPos++
			ex.fillRange(s.obj, off, off+n*s.es, nil)
			for _, kv := range e.Entries {
				if int(kv[0]) < n {
					ex.writeCell(s.obj, off+int(kv[0])*s.es, ts.Const(ew, kv[1]))
				}
			}
			ex.inputs = append(ex.inputs, inputRec{Name: nm, Kind: "arrfixed", Entries: e.Entries})
			return nil
		}
		arr := ts.NewArray(fmt.Sprintf("arr%d_%s", len(ex.inputs), sanitize(nm)), 32, ew)
		ex.inputs = append(ex.inputs, inputRec{Name: nm, Arr: &arr, Kind: "arr"})
		ex.fillRange(s.obj, off, off+n*s.es, &arr)
		return nil
	case "vfAssume":
		ex.assume(args[0].(*Term))
		return nil
	case "vfAssert":
		ex.vfAssert(args[0].(string), args[1].(*Term), "", nil)
		return nil
	case "vfAssertK":
		ex.vfAssert(args[0].(string), args[1].(*Term), args[2].(string), args[3].(*Term))
		return nil
	case "vfReach":
		ex.reach(args[0].(string))
		return nil
	case "vfNote":
		t := args[1].(*Term)
		ex.notes = append(ex.notes, noteRec{Key: args[0].(string), T: t})
		return nil
	case "vfNoteBytes":
		s := args[1].(Slice)
		if s.obj != nil {
			n := ex.concInt(s.len)
			for i := 0; i < n; i++ {
				p := Pointer{obj: s.obj, off: ts.Add(s.off, ts.Const(64, uint64(i)))}
				ex.notes = append(ex.notes, noteRec{Key: fmt.Sprintf("%s[%d]", args[0].(string), i), T: ex.loadCellAt(p).(*Term)})
			}
		}
		return nil
	case "vfAnd":
		return ts.BAnd(args[0].(*Term), args[1].(*Term))
	case "vfOr":
		return ts.BOr(args[0].(*Term), args[1].(*Term))
	case "vfImplies":
		return ts.BOr(ts.BNot(args[0].(*Term)), args[1].(*Term))
	case "vfIteInt":
		return ts.Ite(args[0].(*Term), args[1].(*Term), args[2].(*Term))
	case "vfEqBytes":
		a, b := args[0].(Slice), args[1].(Slice)
		la, lb := ex.sliceLen(a), ex.sliceLen(b)
		if !ex.decide(ts.Eq(la, lb), true) {
			return ts.tFalse
		}
		n := ex.concInt(la)
		r := ts.tTrue
		for i := 0; i < n; i++ {
			pa := Pointer{obj: a.obj, off: ts.Add(a.off, ts.Const(64, uint64(i)))}
			pb := Pointer{obj: b.obj, off: ts.Add(b.off, ts.Const(64, uint64(i)))}
			r = ts.BAnd(r, ts.Eq(ex.loadCellAt(pa).(*Term), ex.loadCellAt(pb).(*Term)))
		}
		return r
	case "vfSymbolic":
		// true when running under the symbolic executor
		return ts.tTrue
	case "vfAsmDecodeBlock":
		return ex.asmDecodeBlock(args[0].(Slice), args[1].(Slice), args[2].(Slice))
	case "vfGuardAlloc":
		n := ex.concInt(args[0])
		o := ex.newObject(types.Typ[types.Uint8], n, "vfGuardAlloc")
		nt := ts.Const(64, uint64(n))
		return Slice{obj: o, off: ts.Const(64, 0), len: nt, cap: nt, es: 1}
	case "vfCallDepthMax":
		return ts.Const(64, uint64(ex.maxDepthSeen))
	case "vfUnwind":
		ex.unwind = int32(ex.concInt(args[0]))
		return nil
	case "vfErrIs":
		return ex.errorsIs(caller, args[0].(Iface), args[1].(Iface))
	}
	panic(fmt.Sprintf("unknown harness primitive %s", name))
}

func (ex *Exec) assume(c *Term) {
	if c.IsTrue() {
		return
	}
	ex.path.Assumes++
	if c.IsFalse() || !ex.feasible(c) {
		ex.abort("assume", "assumption infeasible")
	}
	ex.assertPC(c)
}
