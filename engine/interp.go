package main

// gosym: symbolic executor over go/ssa with decision-prefix replay.

import (
	"fmt"
	"go/constant"
	"go/token"
	"go/types"
	"os"
	"strings"
	"time"

	"golang.org/x/tools/go/ssa"
)

// ---------- decisions / path control ----------

type Decision struct {
	Kind   uint8 // 0 bool, 1 value, 2 open value choice with exclusions
	B      bool
	V      uint64
	Excl   []uint64
	Forced bool
}

type pathAbort struct {
	reason string // "dead", "assert", "unwind", "unsupported", "steps", "solver", "assume"
	detail string
}

type GoPanic struct {
	val Value // Iface
	msg string
}

type fnInfo struct {
	idx   map[ssa.Value]int
	nregs int
}

type deferred struct {
	fn   Value
	args []Value
}

type Frame struct {
	fn         *ssa.Function
	info       *fnInfo
	regs       []Value
	block      *ssa.BasicBlock
	prev       *ssa.BasicBlock
	defers     []deferred
	panicking  *GoPanic
	caller     *Frame
	deferredBy *Frame // set when this frame runs as a deferred call of that frame
	visits     []int32
	result     Value
	depth      int
}

type inputRec struct {
	Name    string
	T       *Term
	Arr     *Arr // for array havoc inputs
	Kind    string
	Entries [][2]uint64 // concrete mode: array contents
}

type execStats struct {
	steps     int64
	symReads  int
	symWrites int
	branches  int
	forks     int
	calls     int64
}

type Exec struct {
	w        *World
	ts       *TermStore
	sv       *Solver
	job      *Job
	prefix   []Decision
	pos      int
	trace    []Decision
	pc       []*Term
	globals  map[*ssa.Global]*Object
	nextObj  int
	nObjects int
	seq      int32
	inputs   []inputRec
	stats    execStats
	maxSteps int64
	unwind   int32
	maxDepth int
	poolMode int
	consts   map[*ssa.Const]Value
	infos    map[*ssa.Function]*fnInfo
	path     *PathResult
	pending  []WorkItem // alternatives discovered on this path
	funcsHit map[*ssa.Function]bool
	inInit   bool
	strIntern map[string]*Object
	solverGen int
	curFrame *Frame
	notes    []noteRec
	pools    map[string][]Value
	known    map[*Term]uint64
	maxDepthSeen int
	noInj    bool
	apps     []*Term // applications of the uninterpreted hash summaries on this path
	sched    *Sched
	fixed    []TapeEntry // concrete mode: input values
	fixedPos int
	model    map[string]uint64 // an assignment of the input variables satisfying the path condition (nil = none known)
	conc       *concState
	poolVCs    map[string][][]uint32
	raceOff    int
	raceCoarse bool
}

type noteRec struct {
	Key string
	T   *Term
}

func (ex *Exec) abort(reason, detail string) {
	panic(pathAbort{reason, detail})
}

func (ex *Exec) goPanic(msg string) {
	panic(&GoPanic{val: Iface{typ: types.Typ[types.String], val: "runtime error: " + msg}, msg: msg})
}

func (ex *Exec) event(kind, detail string) {
	ex.path.Events = append(ex.path.Events, Event{Kind: kind, Detail: detail})
}

// assertPC adds c to the path condition.
func (ex *Exec) assertPC(c *Term) {
	if c.IsTrue() {
		return
	}
	ex.pc = append(ex.pc, c)
	ex.sv.Assert(c)
	if ex.model != nil {
		if c.hasSel || ex.ts.Eval(c, ex.model, map[*Term]uint64{}) == 0 {
			ex.model = nil
		}
	}
	ex.ts.learn(c)
}

// fetchModel reads the values of all scalar inputs after a Sat answer (before the scope is popped).
func (ex *Exec) fetchModel() map[string]uint64 {
	var terms []*Term
	for _, in := range ex.inputs {
		if in.T != nil && in.T.op == OpVar {
			terms = append(terms, in.T)
		}
	}
	vals, ok := ex.sv.GetValues(terms)
	if !ok {
		return nil
	}
	m := make(map[string]uint64, len(terms))
	for i, t := range terms {
		m[t.name] = vals[i]
	}
	return m
}

// feasibleM is feasible() that also returns a model of pc ∧ c when satisfiable.
func (ex *Exec) feasibleM(c *Term) (bool, map[string]uint64) {
	if c.IsFalse() {
		return false, nil
	}
	gen := ex.sv.deaths
	ex.sv.Push()
	ex.sv.Assert(c)
	t0 := time.Now()
	r := ex.sv.Check()
	if d := time.Since(t0); d > 300*time.Millisecond && os.Getenv("VERIF_DUMPSLOW") != "" {
		f, _ := os.Create(fmt.Sprintf("%s/slow_%d_%d_%s.smt2", os.Getenv("VERIF_DUMPSLOW"), os.Getpid(), ex.sv.stats.Queries, r))
		ex.ts.DumpStandalone(f, append(append([]*Term{}, ex.pc...), c))
		f.Close()
	}
	var m map[string]uint64
	if r == Sat && ex.sv.deaths == gen {
		m = ex.fetchModel()
	}
	if ex.sv.deaths == gen {
		ex.sv.Pop()
	}
	ex.checkSolverAlive()
	switch r {
	case Unsat:
		return false, nil
	case Unknown:
		ex.path.Inconclusive = append(ex.path.Inconclusive, "unknown feasibility")
		return true, nil
	}
	return true, m
}

// checkBudget ends the path when the run's exploration budget is used up (or exploration was
// stopped because enough counterexamples were found).
func (ex *Exec) checkBudget() {
	if ex.sched != nil && ex.sched.isClosed() {
		ex.abort("budget", "exploration stopped")
	}
}

func (ex *Exec) checkSolverAlive() {
	ex.checkBudget()
	if ex.sv.deaths != ex.solverGen {
		ex.abort("solver", "solver restarted: "+ex.sv.lastErr)
	}
}

// feasible asks whether pc ∧ c is satisfiable. Unknown counts as feasible but marks the path inconclusive.
func (ex *Exec) feasible(c *Term) bool {
	if c.IsTrue() {
		return true
	}
	if c.IsFalse() {
		return false
	}
	if ex.model != nil && !c.hasSel && ex.ts.Eval(c, ex.model, map[*Term]uint64{}) != 0 {
		return true // the cached model of the path condition also satisfies c
	}
	t0 := time.Now()
	r := ex.sv.CheckWith(c)
	if d := time.Since(t0); d > 300*time.Millisecond && os.Getenv("VERIF_DEBUG") != "" {
		fn := ""
		if ex.curFrame != nil {
			fn = ex.curFrame.fn.String()
		}
		cs := c.String()
		if len(cs) > 400 {
			cs = cs[:400]
		}
		fmt.Fprintf(os.Stderr, "SLOW feasibility %v res=%v in %s pcsize=%d cond=%s\n", d, r, fn, len(ex.pc), cs)
		if dir := os.Getenv("VERIF_DUMPSLOW"); dir != "" {
			f, _ := os.Create(fmt.Sprintf("%s/slow_%d_%d.smt2", dir, os.Getpid(), ex.sv.stats.Queries))
			ex.ts.DumpStandalone(f, append(append([]*Term{}, ex.pc...), c))
			f.Close()
		}
	}
	ex.checkSolverAlive()
	switch r {
	case Unsat:
		return false
	case Unknown:
		ex.path.Inconclusive = append(ex.path.Inconclusive, "unknown feasibility")
		return true
	}
	return true
}

// decide resolves a symbolic boolean, forking if both outcomes are feasible.
// likely is a hint about the expected outcome (the other side is queried first).
func (ex *Exec) decide(c *Term, likely bool) bool {
	if c.IsConst() {
		return c.val != 0
	}
	ex.stats.branches++
	if ex.pos < len(ex.prefix) {
		d := ex.prefix[ex.pos]
		ex.pos++
		ex.trace = append(ex.trace, d)
		if d.B {
			ex.assertPC(c)
		} else {
			ex.assertPC(ex.ts.BNot(c))
		}
		return d.B
	}
	nc := ex.ts.BNot(c)
	var res, both bool
	var altModel map[string]uint64 // model of the side not taken (handed to the forked work item)
	if ex.model != nil && !c.hasSel {
		mv := ex.ts.Eval(c, ex.model, map[*Term]uint64{}) != 0
		other := c
		if mv {
			other = nc
		}
		of, om := ex.feasibleM(other)
		both = of
		if both {
			res = likely
		} else {
			res = mv
		}
		if res != mv {
			altModel = ex.model
			ex.model = om
		} else {
			altModel = om
		}
	} else {
		first, second := nc, c // query unlikely side first
		if !likely {
			first, second = c, nc
		}
		f1, m1 := ex.feasibleM(first)
		if !f1 {
			// the other side must be feasible (pc is satisfiable by invariant)
			res = likely
		} else if f2, m2 := ex.feasibleM(second); !f2 {
			res = !likely
			ex.model = m1
		} else {
			both = true
			res = likely
			ex.model = m2
			altModel = m1
		}
	}
	ex.pos++
	if both {
		ex.stats.forks++
		alt := make([]Decision, len(ex.trace)+1)
		copy(alt, ex.trace)
		alt[len(ex.trace)] = Decision{Kind: 0, B: !res}
		ex.pending = append(ex.pending, WorkItem{Job: ex.job, Prefix: alt, Model: altModel})
	}
	ex.trace = append(ex.trace, Decision{Kind: 0, B: res, Forced: !both})
	if res {
		ex.assertPC(c)
	} else {
		ex.assertPC(nc)
	}
	return res
}

// concretize picks a feasible concrete value of t, forking over all others.
func (ex *Exec) concretize(t *Term) uint64 {
	if t.IsConst() {
		return t.val
	}
	if v, ok := ex.known[t]; ok {
		return v
	}
	defer func() {
		// remember the value chosen on this path (only reached on normal return)
	}()
	ex.stats.branches++
	var excl []uint64
	if ex.pos < len(ex.prefix) {
		d := ex.prefix[ex.pos]
		if d.Kind == 1 {
			ex.pos++
			ex.trace = append(ex.trace, d)
			ex.assertPC(ex.ts.Eq(t, ex.ts.Const(t.w, d.V)))
			ex.known[t] = d.V
			ex.ts.subst[t] = ex.ts.Const(t.w, d.V)
			return d.V
		}
		if d.Kind != 2 {
			panic("internal: decision kind mismatch during replay")
		}
		excl = d.Excl
	}
	ex.pos++
	// find a value not in excl: from the cached model when it qualifies, else from the solver
	var v uint64
	have := false
	if ex.model != nil && !t.hasSel {
		v = ex.ts.Eval(t, ex.model, map[*Term]uint64{})
		have = true
		for _, e := range excl {
			if e == v {
				have = false
			}
		}
	}
	if !have {
		ex.sv.Push()
		for _, e := range excl {
			ex.sv.Assert(ex.ts.Ne(t, ex.ts.Const(t.w, e)))
		}
		r := ex.sv.Check()
		ex.checkSolverAlive()
		if r == Unsat {
			ex.sv.Pop()
			ex.abort("dead", "no further values")
		}
		if r == Unknown {
			ex.sv.Pop()
			ex.path.Inconclusive = append(ex.path.Inconclusive, "unknown in concretize")
			ex.abort("solver", "unknown while enumerating values")
		}
		vals, ok := ex.sv.GetValues([]*Term{t})
		var m map[string]uint64
		if ok {
			m = ex.fetchModel()
		}
		ex.sv.Pop()
		if !ok {
			ex.abort("solver", "get-value failed: "+ex.sv.lastErr)
		}
		v = vals[0]
		ex.model = m
	}
	// is there any other value? (avoids replaying a path that would die immediately)
	more := true
	var altModel map[string]uint64
	{
		ex.sv.Push()
		for _, e := range excl {
			ex.sv.Assert(ex.ts.Ne(t, ex.ts.Const(t.w, e)))
		}
		ex.sv.Assert(ex.ts.Ne(t, ex.ts.Const(t.w, v)))
		r2 := ex.sv.Check()
		if r2 == Sat {
			altModel = ex.fetchModel()
		}
		ex.sv.Pop()
		ex.checkSolverAlive()
		if r2 == Unsat {
			more = false
		}
	}
	if !more {
		// unique remaining value: no fork
	} else if len(excl) >= ex.job.MaxEnum {
		where := ""
		for f := ex.curFrame; f != nil && len(where) < 300; f = f.caller {
			where += " < " + f.fn.String()
		}
		ex.path.Inconclusive = append(ex.path.Inconclusive, fmt.Sprintf("value enumeration cap %d reached in%s", ex.job.MaxEnum, where))
	} else {
		alt := make([]Decision, len(ex.trace)+1)
		copy(alt, ex.trace)
		ne := make([]uint64, len(excl)+1)
		copy(ne, excl)
		ne[len(excl)] = v
		alt[len(ex.trace)] = Decision{Kind: 2, Excl: ne}
		ex.pending = append(ex.pending, WorkItem{Job: ex.job, Prefix: alt, Model: altModel})
		ex.stats.forks++
	}
	ex.trace = append(ex.trace, Decision{Kind: 1, V: v})
	ex.assertPC(ex.ts.Eq(t, ex.ts.Const(t.w, v)))
	ex.known[t] = v
	ex.ts.subst[t] = ex.ts.Const(t.w, v)
	return v
}

func (ex *Exec) concInt(v Value) int {
	t := v.(*Term)
	return int(sext64(ex.concretize(t), t.w))
}

// boundsCheck panics (Go-level) if ok can be false.
func (ex *Exec) boundsCheck(ok *Term, msg string) {
	if ok.IsTrue() {
		return
	}
	if !ex.decide(ok, true) {
		ex.goPanic(msg)
	}
}

// ---------- function info ----------

func (ex *Exec) infoOf(fn *ssa.Function) *fnInfo {
	if in, ok := ex.infos[fn]; ok {
		return in
	}
	in := &fnInfo{idx: map[ssa.Value]int{}}
	n := 0
	for _, p := range fn.Params {
		in.idx[p] = n
		n++
	}
	for _, p := range fn.FreeVars {
		in.idx[p] = n
		n++
	}
	for _, b := range fn.Blocks {
		for _, instr := range b.Instrs {
			if v, ok := instr.(ssa.Value); ok {
				in.idx[v] = n
				n++
			}
		}
	}
	in.nregs = n
	ex.infos[fn] = in
	return in
}

func (fr *Frame) set(v ssa.Value, x Value) {
	fr.regs[fr.info.idx[v]] = x
}

func (ex *Exec) get(fr *Frame, v ssa.Value) Value {
	switch x := v.(type) {
	case *ssa.Const:
		return ex.constValue(x)
	case *ssa.Global:
		return Pointer{obj: ex.globalObj(x), off: ex.ts.Const(64, 0)}
	case *ssa.Function:
		return &Closure{fn: x}
	case *ssa.Builtin:
		return &Closure{bltn: x.Name()}
	}
	i, ok := fr.info.idx[v]
	if !ok {
		panic(fmt.Sprintf("internal: no register for %s in %s", v.Name(), fr.fn))
	}
	r := fr.regs[i]
	if len(ex.ts.subst) > 0 {
		if t, ok := r.(*Term); ok && t.op != OpConst {
			if c, ok := ex.ts.subst[t]; ok {
				fr.regs[i] = c
				return c
			}
		}
	}
	return r
}

func (ex *Exec) constValue(c *ssa.Const) Value {
	if v, ok := ex.consts[c]; ok {
		return v
	}
	var v Value
	t := c.Type()
	if c.Value == nil {
		v = ex.zeroValue(t)
	} else if w, _, ok := intWidth(t); ok {
		if w == 0 {
			v = ex.ts.Bool(constant.BoolVal(c.Value))
		} else {
			cv := constant.ToInt(c.Value)
			if u, exact := constant.Uint64Val(cv); exact {
				v = ex.ts.Const(w, u)
			} else if i, exact := constant.Int64Val(cv); exact {
				v = ex.ts.Const(w, uint64(i))
			} else {
				panic(unsupported("constant " + c.String()))
			}
		}
	} else if b, ok := t.Underlying().(*types.Basic); ok && b.Info()&types.IsString != 0 {
		v = constant.StringVal(c.Value)
	} else if ok && b.Info()&types.IsFloat != 0 {
		f, _ := constant.Float64Val(c.Value)
		v = f
	} else {
		panic(unsupported("constant of type " + t.String()))
	}
	ex.consts[c] = v
	return v
}

func (ex *Exec) globalObj(g *ssa.Global) *Object {
	if o, ok := ex.globals[g]; ok {
		return o
	}
	o := ex.newObject(g.Type().(*types.Pointer).Elem(), 1, "global:"+g.String())
	ex.globals[g] = o
	return o
}

// ---------- calls ----------

func (ex *Exec) callValue(caller *Frame, fnv Value, args []Value, pos token.Pos) Value {
	cl, ok := fnv.(*Closure)
	if !ok || cl == nil {
		ex.goPanic("call of nil function")
	}
	if cl.bltn != "" {
		return ex.callBuiltin(caller, cl.bltn, args, nil, nil)
	}
	return ex.callFunction(caller, cl.fn, args, cl.env, nil)
}

func (ex *Exec) callFunction(caller *Frame, fn *ssa.Function, args []Value, env []Value, deferredBy *Frame) Value {
	ex.stats.calls++
	if r, handled := ex.intrinsic(caller, fn, args); handled {
		return r
	}
	if fn.Blocks == nil {
		panic(unsupported("no body for function " + fn.String()))
	}
	if ex.funcsHit != nil {
		ex.funcsHit[fn] = true
	}
	info := ex.infoOf(fn)
	fr := &Frame{fn: fn, info: info, regs: make([]Value, info.nregs), caller: caller, deferredBy: deferredBy, visits: make([]int32, len(fn.Blocks))}
	if caller != nil {
		fr.depth = caller.depth + 1
	}
	if fr.depth > ex.maxDepthSeen {
		ex.maxDepthSeen = fr.depth
	}
	if fr.depth > ex.maxDepth {
		ex.event("recursion", fmt.Sprintf("call depth %d exceeded in %s", ex.maxDepth, fn))
		ex.abort("unwind", "recursion depth exceeded in "+fn.String())
	}
	if len(args) != len(fn.Params) {
		panic(fmt.Sprintf("internal: arg count mismatch calling %s: %d vs %d", fn, len(args), len(fn.Params)))
	}
	for i := range fn.Params {
		fr.regs[i] = args[i]
	}
	for i := range fn.FreeVars {
		fr.regs[len(fn.Params)+i] = env[i]
	}
	fr.block = fn.Blocks[0]
	saved := ex.curFrame
	ex.curFrame = fr
	for fr.block != nil {
		ex.runFrame(fr)
	}
	ex.curFrame = saved
	return fr.result
}

func (ex *Exec) runFrame(fr *Frame) {
	defer func() {
		if fr.block == nil {
			return
		}
		r := recover()
		gp, ok := r.(*GoPanic)
		if !ok {
			panic(r) // engine-level abort: propagate untouched
		}
		fr.panicking = gp
		ex.runDefers(fr)
		if fr.panicking != nil {
			// not recovered: propagate
			fr.block = nil
			panic(gp)
		}
		// recovered
		if fr.fn.Recover != nil {
			fr.prev = fr.block
			fr.block = fr.fn.Recover
		} else {
			fr.block = nil
			res := fr.fn.Signature.Results()
			switch res.Len() {
			case 0:
				fr.result = nil
			case 1:
				fr.result = ex.zeroValue(res.At(0).Type())
			default:
				fr.result = ex.zeroValue(res)
			}
		}
	}()
	for {
		b := fr.block
		fr.visits[b.Index]++
		if fr.visits[b.Index] > ex.unwind {
			ex.event("unwind", fmt.Sprintf("block %d of %s visited more than %d times", b.Index, fr.fn, ex.unwind))
			ex.abort("unwind", fmt.Sprintf("loop bound %d exceeded in %s", ex.unwind, fr.fn))
		}
		// phis
		i := 0
		if len(b.Instrs) > 0 {
			if _, isPhi := b.Instrs[0].(*ssa.Phi); isPhi {
				pi := -1
				for k, p := range b.Preds {
					if p == fr.prev {
						pi = k
						break
					}
				}
				var tmp [8]Value
				temps := tmp[:0]
				for ; i < len(b.Instrs); i++ {
					phi, ok := b.Instrs[i].(*ssa.Phi)
					if !ok {
						break
					}
					temps = append(temps, ex.get(fr, phi.Edges[pi]))
				}
				for k := 0; k < i; k++ {
					fr.set(b.Instrs[k].(*ssa.Phi), temps[k])
				}
			}
		}
		for ; i < len(b.Instrs); i++ {
			ex.stats.steps++
			if ex.stats.steps > ex.maxSteps {
				ex.event("steps", fmt.Sprintf("step budget %d exhausted in %s", ex.maxSteps, fr.fn))
				ex.abort("steps", "step budget exhausted")
			}
			if ex.visit(fr, b.Instrs[i]) {
				return // return executed
			}
		}
	}
}

func (ex *Exec) runDefers(fr *Frame) {
	for len(fr.defers) > 0 {
		d := fr.defers[len(fr.defers)-1]
		fr.defers = fr.defers[:len(fr.defers)-1]
		cl := d.fn.(*Closure)
		if cl == nil {
			ex.goPanic("deferred nil func")
		}
		if cl.bltn != "" {
			ex.callBuiltin(fr, cl.bltn, d.args, fr, nil)
		} else {
			ex.callFunction(fr, cl.fn, d.args, cl.env, fr)
		}
	}
}

func (ex *Exec) prepareCall(fr *Frame, c *ssa.CallCommon) (Value, []Value) {
	v := ex.get(fr, c.Value)
	var args []Value
	var fnv Value
	if c.Method == nil {
		fnv = v
	} else {
		recv := v.(Iface)
		if recv.typ == nil {
			ex.goPanic("method invoked on nil interface")
		}
		m := ex.lookupMethod(recv.typ, c.Method.Pkg(), c.Method.Name())
		if m == nil {
			panic(fmt.Sprintf("internal: no method %s on %s", c.Method.Name(), recv.typ))
		}
		fnv = &Closure{fn: m}
		args = append(args, recv.val)
	}
	for _, a := range c.Args {
		args = append(args, ex.get(fr, a))
	}
	return fnv, args
}

// visit executes one instruction; returns true when the frame returned.
func (ex *Exec) visit(fr *Frame, instr ssa.Instruction) bool {
	ts := ex.ts
	switch in := instr.(type) {
	case *ssa.DebugRef:
	case *ssa.UnOp:
		fr.set(in, ex.unop(fr, in))
	case *ssa.BinOp:
		fr.set(in, ex.binop(in.Op, in.X.Type(), ex.get(fr, in.X), ex.get(fr, in.Y), in.Y.Type()))
	case *ssa.Call:
		fnv, args := ex.prepareCall(fr, &in.Call)
		var r Value
		cl := fnv.(*Closure)
		if cl == nil {
			ex.goPanic("call of nil function")
		}
		if cl.bltn != "" {
			r = ex.callBuiltin(fr, cl.bltn, args, nil, in.Type())
		} else {
			r = ex.callFunction(fr, cl.fn, args, cl.env, nil)
		}
		fr.set(in, r)
	case *ssa.ChangeInterface:
		fr.set(in, ex.get(fr, in.X))
	case *ssa.ChangeType:
		fr.set(in, ex.get(fr, in.X))
	case *ssa.Convert:
		fr.set(in, ex.convert(in.X.Type(), in.Type(), ex.get(fr, in.X)))
	case *ssa.MultiConvert:
		fr.set(in, ex.convert(in.X.Type(), in.Type(), ex.get(fr, in.X)))
	case *ssa.MakeInterface:
		fr.set(in, Iface{typ: in.X.Type(), val: ex.get(fr, in.X)})
	case *ssa.Extract:
		fr.set(in, ex.get(fr, in.Tuple).(Tuple)[in.Index])
	case *ssa.Slice:
		fr.set(in, ex.sliceOp(fr, in))
	case *ssa.Return:
		switch len(in.Results) {
		case 0:
			fr.result = nil
		case 1:
			fr.result = ex.get(fr, in.Results[0])
		default:
			t := make(Tuple, len(in.Results))
			for i, r := range in.Results {
				t[i] = ex.get(fr, r)
			}
			fr.result = t
		}
		fr.block = nil
		return true
	case *ssa.RunDefers:
		ex.runDefers(fr)
	case *ssa.Panic:
		v := ex.get(fr, in.X)
		panic(&GoPanic{val: v, msg: "explicit panic"})
	case *ssa.Select:
		panic(unsupported("select statement in " + fr.fn.String()))
	case *ssa.MakeChan:
		n := ex.concInt(ex.get(fr, in.Size))
		if n < 0 {
			ex.goPanic("makechan: size out of range")
		}
		fr.set(in, ex.makeChan(n, fr.fn.Name()))
	case *ssa.Send:
		ch, _ := ex.get(fr, in.Chan).(*ChanVal)
		ex.chanSend(ch, ex.get(fr, in.X))
	case *ssa.Go:
		ex.goStmt(fr, &in.Call)
	case *ssa.Store:
		p := ex.get(fr, in.Addr).(Pointer)
		ex.store(p, in.Val.Type(), ex.get(fr, in.Val))
	case *ssa.If:
		c := ex.get(fr, in.Cond).(*Term)
		succ := 1
		if ex.decide(c, true) {
			succ = 0
		}
		fr.prev = fr.block
		fr.block = fr.block.Succs[succ]
		return false
	case *ssa.Jump:
		fr.prev = fr.block
		fr.block = fr.block.Succs[0]
		return false
	case *ssa.Defer:
		fnv, args := ex.prepareCall(fr, &in.Call)
		fr.defers = append(fr.defers, deferred{fnv, args})
	case *ssa.Alloc:
		o := ex.newObject(in.Type().(*types.Pointer).Elem(), 1, in.Comment)
		fr.set(in, Pointer{obj: o, off: ts.Const(64, 0)})
	case *ssa.MakeSlice:
		n := ex.get(fr, in.Len).(*Term)
		c := ex.get(fr, in.Cap).(*Term)
		et := in.Type().Underlying().(*types.Slice).Elem()
		cv := ex.concInt(c)
		if cv < 0 || cv > 1<<27 {
			if cv >= 0 {
				ex.event("alloc", fmt.Sprintf("make([]T, %d) in %s", cv, fr.fn))
			}
			ex.goPanic("makeslice: cap out of range")
		}
		ex.boundsCheck(ts.Ule(n, c), "makeslice: len out of range")
		ex.noteAlloc(fr, cv*layoutOf(et).size)
		o := ex.newObject(et, cv, "makeslice@"+fr.fn.Name())
		fr.set(in, Slice{obj: o, off: ts.Const(64, 0), len: n, cap: c, es: layoutOf(et).size})
	case *ssa.MakeMap:
		fr.set(in, &MapVal{m: map[interface{}]Value{}})
	case *ssa.MapUpdate:
		m := ex.get(fr, in.Map).(*MapVal)
		m.m[ex.mapKey(ex.get(fr, in.Key))] = ex.get(fr, in.Value)
	case *ssa.Lookup:
		fr.set(in, ex.lookup(fr, in))
	case *ssa.Range:
		s, ok := ex.get(fr, in.X).(string)
		if !ok {
			panic(unsupported("range over map"))
		}
		fr.set(in, &RangeIter{s: s})
	case *ssa.Next:
		it := ex.get(fr, in.Iter).(*RangeIter)
		if it.pos >= len(it.s) {
			fr.set(in, Tuple{ts.Bool(false), ts.Const(64, 0), ts.Const(32, 0)})
		} else {
			for i, r := range it.s[it.pos:] {
				_ = i
				n := len(string(r))
				fr.set(in, Tuple{ts.Bool(true), ts.Const(64, uint64(it.pos)), ts.Const(32, uint64(r))})
				it.pos += n
				break
			}
		}
	case *ssa.FieldAddr:
		p := ex.get(fr, in.X).(Pointer)
		if p.obj == nil {
			ex.goPanic("nil pointer dereference (field address)")
		}
		st := in.X.Type().Underlying().(*types.Pointer).Elem()
		l := layoutOf(st)
		fr.set(in, Pointer{obj: p.obj, off: ts.Add(p.off, ts.Const(64, uint64(l.offs[in.Field])))})
	case *ssa.Field:
		fr.set(in, ex.get(fr, in.X).(Struct)[in.Field])
	case *ssa.IndexAddr:
		fr.set(in, ex.indexAddr(fr, in))
	case *ssa.Index:
		x := ex.get(fr, in.X)
		idx := ex.get(fr, in.Index).(*Term)
		idx = ts.Resize(idx, 64, isSigned(in.Index.Type()))
		switch a := x.(type) {
		case *ArrayVal:
			ex.boundsCheck(ts.Ult(idx, ts.Const(64, uint64(a.n))), "index out of range")
			if idx.IsConst() {
				fr.set(in, a.at(int(idx.val)))
			} else {
				var acc *Term
				for i := a.n - 1; i >= 0; i-- {
					e := a.at(i).(*Term)
					if acc == nil {
						acc = e
					} else {
						acc = ts.Ite(ts.Eq(idx, ts.Const(64, uint64(i))), e, acc)
					}
				}
				fr.set(in, acc)
			}
		case string:
			ex.boundsCheck(ts.Ult(idx, ts.Const(64, uint64(len(a)))), "index out of range")
			i := ex.concretize(idx)
			fr.set(in, ts.Const(8, uint64(a[i])))
		default:
			panic(unsupported("Index on " + fmt.Sprintf("%T", x)))
		}
	case *ssa.MakeClosure:
		env := make([]Value, len(in.Bindings))
		for i, b := range in.Bindings {
			env[i] = ex.get(fr, b)
		}
		fr.set(in, &Closure{fn: in.Fn.(*ssa.Function), env: env})
	case *ssa.TypeAssert:
		fr.set(in, ex.typeAssert(fr, in))
	case *ssa.SliceToArrayPointer:
		s := ex.get(fr, in.X).(Slice)
		n := in.Type().Underlying().(*types.Pointer).Elem().Underlying().(*types.Array).Len()
		ex.boundsCheck(ts.Ule(ts.Const(64, uint64(n)), s.len), "slice to array pointer: length too short")
		fr.set(in, Pointer{obj: s.obj, off: s.off})
	default:
		panic(unsupported(fmt.Sprintf("instruction %T: %s", instr, instr)))
	}
	return false
}

func isSigned(t types.Type) bool {
	_, s, _ := intWidth(t)
	return s
}

func (ex *Exec) noteAlloc(fr *Frame, cells int) {
	if ex.job.AllocLimit > 0 && cells > ex.job.AllocLimit && !ex.inInit && !ex.w.isHarnessFunc(fr.fn) {
		ex.path.Asserts++
		ex.asmViolation("alloc-bounded", fmt.Sprintf("allocation of %d cells in %s exceeds the declared block maximum", cells, fr.fn), nil)
	}
	if cells > ex.path.MaxAlloc {
		ex.path.MaxAlloc = cells
		ex.path.MaxAllocSite = fr.fn.String()
	}
}

func (ex *Exec) mapKey(v Value) interface{} {
	switch k := v.(type) {
	case string:
		return k
	case *Term:
		if k.IsConst() {
			return k.val
		}
	}
	panic(unsupported("map key"))
}

func (ex *Exec) lookup(fr *Frame, in *ssa.Lookup) Value {
	x := ex.get(fr, in.X)
	switch m := x.(type) {
	case string:
		idx := ex.get(fr, in.Index).(*Term)
		idx = ex.ts.Resize(idx, 64, isSigned(in.Index.Type()))
		ex.boundsCheck(ex.ts.Ult(idx, ex.ts.Const(64, uint64(len(m)))), "string index out of range")
		i := ex.concretize(idx)
		return ex.ts.Const(8, uint64(m[i]))
	case *MapVal:
		var v Value
		ok := false
		if m != nil {
			v, ok = m.m[ex.mapKey(ex.get(fr, in.Index))]
		}
		if !ok {
			v = ex.zeroValue(in.X.Type().Underlying().(*types.Map).Elem())
		}
		if in.CommaOk {
			return Tuple{v, ex.ts.Bool(ok)}
		}
		return v
	}
	panic(unsupported("lookup"))
}

func (ex *Exec) indexAddr(fr *Frame, in *ssa.IndexAddr) Value {
	ts := ex.ts
	x := ex.get(fr, in.X)
	idx := ex.get(fr, in.Index).(*Term)
	idx = ts.Resize(idx, 64, isSigned(in.Index.Type()))
	switch a := x.(type) {
	case Slice:
		if a.obj == nil {
			ex.goPanic("index out of range (nil slice)")
		}
		ex.boundsCheck(ts.Ult(idx, a.len), "index out of range")
		off := ts.Add(a.off, mulConst(ts, idx, a.es))
		p := Pointer{obj: a.obj, off: off}
		if !off.IsConst() && a.off.IsConst() {
			p.lo = int32(a.off.val)
			p.st = int32(a.es)
			if a.len.IsConst() {
				p.hi = int32(int(a.off.val) + int(a.len.val)*a.es)
			} else if a.cap.IsConst() {
				p.hi = int32(int(a.off.val) + int(a.cap.val)*a.es)
			}
		}
		return p
	case Pointer:
		if a.obj == nil {
			ex.goPanic("nil pointer dereference (index)")
		}
		at := in.X.Type().Underlying().(*types.Pointer).Elem().Underlying().(*types.Array)
		es := layoutOf(at.Elem()).size
		ex.boundsCheck(ts.Ult(idx, ts.Const(64, uint64(at.Len()))), "index out of range")
		off := ts.Add(a.off, mulConst(ts, idx, es))
		p := Pointer{obj: a.obj, off: off}
		if !off.IsConst() && a.off.IsConst() {
			p.lo = int32(a.off.val)
			p.st = int32(es)
			p.hi = int32(int(a.off.val) + int(at.Len())*es)
		}
		return p
	}
	panic(unsupported(fmt.Sprintf("IndexAddr on %T", x)))
}

func mulConst(ts *TermStore, t *Term, k int) *Term {
	if k == 1 {
		return t
	}
	return ts.Mul(t, ts.Const(64, uint64(k)))
}

func (ex *Exec) sliceOp(fr *Frame, in *ssa.Slice) Value {
	ts := ex.ts
	x := ex.get(fr, in.X)
	var lo, hi, max *Term
	get := func(v ssa.Value) *Term {
		if v == nil {
			return nil
		}
		t := ex.get(fr, v).(*Term)
		return ts.Resize(t, 64, isSigned(v.Type()))
	}
	lo, hi, max = get(in.Low), get(in.High), get(in.Max)
	if lo == nil {
		lo = ts.Const(64, 0)
	}
	switch a := x.(type) {
	case string:
		l, h := 0, len(a)
		ex.boundsCheck(ts.Ule(lo, ts.Const(64, uint64(len(a)))), "slice bounds out of range")
		l = int(ex.concretize(lo))
		if hi != nil {
			ex.boundsCheck(ts.BAnd(ts.Ule(lo, hi), ts.Ule(hi, ts.Const(64, uint64(len(a))))), "slice bounds out of range")
			h = int(ex.concretize(hi))
		}
		return a[l:h]
	case Slice:
		if a.obj == nil && hi == nil {
			hi = ts.Const(64, 0)
		}
		if hi == nil {
			hi = a.len
		}
		if a.obj == nil {
			// nil slice: only [0:0] is valid
			z := ts.Const(64, 0)
			ok := ts.BAnd(ts.Eq(lo, z), ts.Eq(hi, z))
			if max != nil {
				ok = ts.BAnd(ok, ts.Eq(max, z))
			}
			ex.boundsCheck(ok, "slice bounds out of range (nil slice)")
			return a
		}
		capT := a.cap
		if max != nil {
			ex.boundsCheck(ts.Ule(max, a.cap), "slice bounds out of range [::max] with capacity")
			capT = max
		}
		ex.boundsCheck(ts.Ule(hi, capT), "slice bounds out of range [:high] with capacity")
		ex.boundsCheck(ts.Ule(lo, hi), "slice bounds out of range [low:high]")
		if !lo.IsConst() && os.Getenv("VERIF_CONCSLICE") != "" {
			// policy: slice offsets are enumerated rather than kept symbolic (bounded by the buffer size)
			lo = ts.Const(64, ex.concretize(lo))
		}
		return Slice{obj: a.obj, off: ts.Add(a.off, mulConst(ts, lo, a.es)), len: ts.Sub(hi, lo), cap: ts.Sub(capT, lo), es: a.es}
	case Pointer:
		if a.obj == nil {
			ex.goPanic("nil pointer dereference (slice of array pointer)")
		}
		at := in.X.Type().Underlying().(*types.Pointer).Elem().Underlying().(*types.Array)
		es := layoutOf(at.Elem()).size
		n := ts.Const(64, uint64(at.Len()))
		if hi == nil {
			hi = n
		}
		capT := n
		if max != nil {
			ex.boundsCheck(ts.Ule(max, n), "slice bounds out of range [::max]")
			capT = max
		}
		ex.boundsCheck(ts.Ule(hi, capT), "slice bounds out of range [:high]")
		ex.boundsCheck(ts.Ule(lo, hi), "slice bounds out of range [low:high]")
		return Slice{obj: a.obj, off: ts.Add(a.off, mulConst(ts, lo, es)), len: ts.Sub(hi, lo), cap: ts.Sub(capT, lo), es: es}
	}
	panic(unsupported(fmt.Sprintf("Slice on %T", x)))
}

func (ex *Exec) typeAssert(fr *Frame, in *ssa.TypeAssert) Value {
	x := ex.get(fr, in.X).(Iface)
	ok := false
	if x.typ != nil {
		if it, isI := in.AssertedType.Underlying().(*types.Interface); isI {
			ok = types.Implements(x.typ, it)
		} else {
			ok = types.Identical(x.typ, in.AssertedType)
		}
	}
	var v Value
	if ok {
		if _, isI := in.AssertedType.Underlying().(*types.Interface); isI {
			v = x
		} else {
			v = x.val
		}
	}
	if in.CommaOk {
		if !ok {
			v = ex.zeroValue(in.AssertedType)
		}
		return Tuple{v, ex.ts.Bool(ok)}
	}
	if !ok {
		ex.goPanic(fmt.Sprintf("interface conversion: %v is not %v", x.typ, in.AssertedType))
	}
	return v
}

func (ex *Exec) unop(fr *Frame, in *ssa.UnOp) Value {
	x := ex.get(fr, in.X)
	switch in.Op {
	case token.MUL:
		p := x.(Pointer)
		return ex.load(p, in.Type())
	case token.NOT:
		return ex.ts.BNot(x.(*Term))
	case token.SUB:
		if f, ok := x.(float64); ok {
			return -f
		}
		return ex.ts.Neg(x.(*Term))
	case token.XOR:
		return ex.ts.Not(x.(*Term))
	case token.ARROW:
		ch, _ := x.(*ChanVal)
		et := in.X.Type().Underlying().(*types.Chan).Elem()
		v, ok := ex.chanRecv(ch, ex.zeroValue(et))
		if in.CommaOk {
			return Tuple{v, ex.ts.Bool(ok)}
		}
		return v
	}
	panic(unsupported("unop " + in.Op.String()))
}

func (ex *Exec) binop(op token.Token, xt types.Type, x, y Value, yt types.Type) Value {
	ts := ex.ts
	switch a := x.(type) {
	case *Term:
		b, ok := y.(*Term)
		if !ok {
			panic(unsupported("binop int with non-int"))
		}
		w, signed, _ := intWidth(xt)
		if a.w == 0 {
			switch op {
			case token.EQL:
				return ts.Eq(a, b)
			case token.NEQ:
				return ts.Ne(a, b)
			case token.AND, token.LAND:
				return ts.BAnd(a, b)
			case token.OR, token.LOR:
				return ts.BOr(a, b)
			}
			panic(unsupported("bool binop " + op.String()))
		}
		switch op {
		case token.ADD:
			return ts.Add(a, b)
		case token.SUB:
			return ts.Sub(a, b)
		case token.MUL:
			return ts.Mul(a, b)
		case token.QUO, token.REM:
			z := ts.Eq(b, ts.Const(w, 0))
			if !z.IsFalse() {
				if ex.decide(z, false) {
					ex.goPanic("integer divide by zero")
				}
			}
			if signed {
				if op == token.QUO {
					return ts.Bin(OpSDiv, a, b)
				}
				return ts.Bin(OpSRem, a, b)
			}
			if op == token.QUO {
				return ts.Bin(OpUDiv, a, b)
			}
			return ts.Bin(OpURem, a, b)
		case token.AND:
			return ts.And(a, b)
		case token.OR:
			return ts.Or(a, b)
		case token.XOR:
			return ts.Xor(a, b)
		case token.AND_NOT:
			return ts.And(a, ts.Not(b))
		case token.SHL, token.SHR:
			_, ysigned, _ := intWidth(yt)
			if ysigned {
				neg := ts.Slt(b, ts.Const(b.w, 0))
				if !neg.IsFalse() && ex.decide(neg, false) {
					ex.goPanic("negative shift amount")
				}
			}
			// bring shift count to width w, saturating
			var cnt *Term
			big := ts.tFalse
			if b.w > w {
				big = ts.BNot(ts.Ult(b, ts.Const(b.w, uint64(w))))
				cnt = ts.Extract(b, w-1, 0)
			} else {
				cnt = ts.ZExt(b, w)
				big = ts.BNot(ts.Ult(cnt, ts.Const(w, uint64(w))))
			}
			var r *Term
			if op == token.SHL {
				r = ts.Ite(big, ts.Const(w, 0), ts.Bin(OpShl, a, cnt))
			} else if signed {
				r = ts.Ite(big, ts.Bin(OpAShr, a, ts.Const(w, uint64(w-1))), ts.Bin(OpAShr, a, cnt))
			} else {
				r = ts.Ite(big, ts.Const(w, 0), ts.Bin(OpLShr, a, cnt))
			}
			return r
		case token.EQL:
			return ts.Eq(a, b)
		case token.NEQ:
			return ts.Ne(a, b)
		case token.LSS:
			if signed {
				return ts.Slt(a, b)
			}
			return ts.Ult(a, b)
		case token.LEQ:
			if signed {
				return ts.Sle(a, b)
			}
			return ts.Ule(a, b)
		case token.GTR:
			if signed {
				return ts.Slt(b, a)
			}
			return ts.Ult(b, a)
		case token.GEQ:
			if signed {
				return ts.Sle(b, a)
			}
			return ts.Ule(b, a)
		}
	case string:
		b := y.(string)
		switch op {
		case token.ADD:
			return a + b
		case token.EQL:
			return ts.Bool(a == b)
		case token.NEQ:
			return ts.Bool(a != b)
		case token.LSS:
			return ts.Bool(a < b)
		case token.LEQ:
			return ts.Bool(a <= b)
		case token.GTR:
			return ts.Bool(a > b)
		case token.GEQ:
			return ts.Bool(a >= b)
		}
	case float64:
		b := y.(float64)
		switch op {
		case token.ADD:
			return a + b
		case token.SUB:
			return a - b
		case token.MUL:
			return a * b
		case token.QUO:
			return a / b
		case token.EQL:
			return ts.Bool(a == b)
		case token.NEQ:
			return ts.Bool(a != b)
		case token.LSS:
			return ts.Bool(a < b)
		case token.LEQ:
			return ts.Bool(a <= b)
		case token.GTR:
			return ts.Bool(a > b)
		case token.GEQ:
			return ts.Bool(a >= b)
		}
	}
	switch op {
	case token.EQL:
		return ex.equal(x, y)
	case token.NEQ:
		return ts.BNot(ex.equal(x, y))
	}
	panic(unsupported(fmt.Sprintf("binop %s on %T", op, x)))
}

func (ex *Exec) equal(x, y Value) *Term {
	ts := ex.ts
	switch a := x.(type) {
	case nil:
		switch b := y.(type) {
		case nil:
			return ts.tTrue
		case *Closure:
			return ts.Bool(b == nil)
		}
		return ex.equal(y, x)
	case *Term:
		return ts.Eq(a, y.(*Term))
	case string:
		return ts.Bool(a == y.(string))
	case Pointer:
		b := y.(Pointer)
		if a.obj != b.obj {
			return ts.tFalse
		}
		if a.obj == nil {
			return ts.tTrue
		}
		return ts.Eq(a.off, b.off)
	case Iface:
		b, ok := y.(Iface)
		if !ok {
			if y == nil {
				return ts.Bool(a.typ == nil)
			}
			panic(unsupported("iface compare"))
		}
		if a.typ == nil || b.typ == nil {
			return ts.Bool(a.typ == nil && b.typ == nil)
		}
		if !types.Identical(a.typ, b.typ) {
			return ts.tFalse
		}
		return ex.equal(a.val, b.val)
	case *Closure:
		if b, ok := y.(*Closure); ok {
			if a == nil || b == nil {
				return ts.Bool(a == nil && b == nil)
			}
		} else if y == nil {
			return ts.Bool(a == nil)
		}
		ex.goPanic("comparing uncomparable type func")
	case Slice:
		b, ok := y.(Slice)
		if ok && (a.obj == nil || b.obj == nil) {
			return ts.Bool(a.obj == nil && b.obj == nil)
		}
		ex.goPanic("comparing uncomparable type slice")
	case *ChanVal:
		b, _ := y.(*ChanVal)
		return ts.Bool(a == b)
	case *MapVal:
		b, _ := y.(*MapVal)
		return ts.Bool(a == nil && b == nil)
	case Struct:
		b := y.(Struct)
		r := ts.tTrue
		for i := range a {
			r = ts.BAnd(r, ex.equal(a[i], b[i]))
		}
		return r
	case *ArrayVal:
		b := y.(*ArrayVal)
		r := ts.tTrue
		for i := 0; i < a.n; i++ {
			r = ts.BAnd(r, ex.equal(a.at(i), b.at(i)))
		}
		return r
	}
	panic(unsupported(fmt.Sprintf("equality on %T", x)))
}

func (ex *Exec) convert(from, to types.Type, x Value) Value {
	ts := ex.ts
	if t, ok := x.(*Term); ok {
		if w, _, ok := intWidth(to); ok && w > 0 {
			_, fs, _ := intWidth(from)
			return ts.Resize(t, w, fs)
		}
		if b, ok := to.Underlying().(*types.Basic); ok && b.Info()&types.IsString != 0 {
			// string(rune)
			v := ex.concretize(t)
			return string(rune(v))
		}
		if b, ok := to.Underlying().(*types.Basic); ok && b.Info()&types.IsFloat != 0 {
			_, fs, _ := intWidth(from)
			v := ex.concretize(t)
			if fs {
				return float64(sext64(v, t.w))
			}
			return float64(v)
		}
	}
	if s, ok := x.(string); ok {
		if sl, ok := to.Underlying().(*types.Slice); ok {
			if w, _, ok := intWidth(sl.Elem()); ok && w == 8 {
				o := ex.newObject(sl.Elem(), len(s), "[]byte(string)")
				for i := 0; i < len(s); i++ {
					ex.writeCell(o, i, ts.Const(8, uint64(s[i])))
				}
				n := ts.Const(64, uint64(len(s)))
				return Slice{obj: o, off: ts.Const(64, 0), len: n, cap: n, es: 1}
			}
		}
		if b, ok := to.Underlying().(*types.Basic); ok && b.Info()&types.IsString != 0 {
			return s
		}
	}
	if sl, ok := x.(Slice); ok {
		if b, ok := to.Underlying().(*types.Basic); ok && b.Info()&types.IsString != 0 {
			if sl.obj == nil {
				return ""
			}
			n := ex.concInt(sl.len)
			off := ex.concInt(sl.off)
			bs := make([]byte, n)
			for i := 0; i < n; i++ {
				c := ex.readCell(sl.obj, off+i).(*Term)
				bs[i] = byte(ex.concretize(c))
			}
			return string(bs)
		}
	}
	if f, ok := x.(float64); ok {
		if w, _, ok := intWidth(to); ok && w > 0 {
			return ts.Const(w, uint64(int64(f)))
		}
		return f
	}
	if p, ok := x.(Pointer); ok {
		return p // unsafe.Pointer conversions
	}
	panic(unsupported(fmt.Sprintf("convert %s -> %s", from, to)))
}

// ---------- builtins ----------

func (ex *Exec) sliceLen(v Value) *Term {
	switch s := v.(type) {
	case Slice:
		if s.obj == nil {
			return ex.ts.Const(64, 0)
		}
		return s.len
	case string:
		return ex.ts.Const(64, uint64(len(s)))
	case *ArrayVal:
		return ex.ts.Const(64, uint64(s.n))
	case *ChanVal:
		if s == nil {
			return ex.ts.Const(64, 0)
		}
		return ex.ts.Const(64, uint64(len(s.buf)))
	case *MapVal:
		if s == nil {
			return ex.ts.Const(64, 0)
		}
		return ex.ts.Const(64, uint64(len(s.m)))
	case Pointer: // *array: length from type is handled by SSA const; fallback
		panic(unsupported("len of pointer"))
	}
	panic(unsupported(fmt.Sprintf("len of %T", v)))
}

func (ex *Exec) callBuiltin(fr *Frame, name string, args []Value, deferredBy *Frame, rt types.Type) Value {
	ts := ex.ts
	switch name {
	case "len":
		return ex.sliceLen(args[0])
	case "cap":
		switch s := args[0].(type) {
		case Slice:
			if s.obj == nil {
				return ts.Const(64, 0)
			}
			return s.cap
		case *ChanVal:
			if s == nil {
				return ts.Const(64, 0)
			}
			return ts.Const(64, uint64(s.cap))
		}
		return ex.sliceLen(args[0])
	case "copy":
		return ex.copyBuiltin(args[0].(Slice), args[1])
	case "append":
		var et types.Type
		if rt != nil {
			et = rt.Underlying().(*types.Slice).Elem()
		}
		return ex.appendBuiltin(fr, args[0].(Slice), args[1], et)
	case "recover":
		// valid only when called directly by a deferred function during panicking
		if fr != nil && fr.deferredBy != nil && fr.deferredBy.panicking != nil {
			p := fr.deferredBy.panicking
			fr.deferredBy.panicking = nil
			if iv, ok := p.val.(Iface); ok {
				return iv
			}
			return Iface{typ: types.Typ[types.String], val: "panic"}
		}
		return Iface{}
	case "print", "println":
		return nil
	case "min", "max":
		acc := args[0].(*Term)
		for _, a := range args[1:] {
			b := a.(*Term)
			// signedness unknown here: harness code should avoid min/max on symbolic values
			if !acc.IsConst() || !b.IsConst() {
				panic(unsupported("min/max on symbolic values"))
			}
			if (name == "min") == (sext64(b.val, b.w) < sext64(acc.val, acc.w)) {
				acc = b
			}
		}
		return acc
	case "ssa:wrapnilchk":
		if p, ok := args[0].(Pointer); ok && p.obj == nil {
			ex.goPanic("value method called using nil pointer")
		}
		return args[0]
	case "close":
		ch, _ := args[0].(*ChanVal)
		ex.chanClose(ch)
		return nil
	case "delete":
		m := args[0].(*MapVal)
		if m != nil {
			delete(m.m, ex.mapKey(args[1]))
		}
		return nil
	}
	panic(unsupported("builtin " + name))
}

// copyBuiltin implements copy(dst, src) with memmove semantics.
func (ex *Exec) copyBuiltin(dst Slice, srcv Value) Value {
	ts := ex.ts
	var src Slice
	switch s := srcv.(type) {
	case Slice:
		src = s
	case string:
		// copy from string: materialise
		src = ex.convert(types.Typ[types.String], types.NewSlice(types.Typ[types.Uint8]), s).(Slice)
	}
	if dst.obj == nil || src.obj == nil {
		return ts.Const(64, 0)
	}
	// n = min(len(dst), len(src))
	lt := ts.Ult(src.len, dst.len)
	nT := ts.Ite(lt, src.len, dst.len)
	n := int(ex.concretize(nT))
	if n == 0 {
		return ts.Const(64, 0)
	}
	if dst.obj.released || src.obj.released {
		ex.useAfterPut("copy touching object released to pool")
	}
	if ex.conc != nil && dst.off.IsConst() && src.off.IsConst() {
		ex.raceAccess(src.obj, int(src.off.val), int(src.off.val)+n*dst.es, false)
		ex.raceAccess(dst.obj, int(dst.off.val), int(dst.off.val)+n*dst.es, true)
		ex.raceOff++
		defer func() { ex.raceOff-- }()
	}
	es := dst.es
	cells := n * es
	// policy: copies never use symbolic offsets; the feasible offsets are enumerated instead
	// (bounded by the buffer size), which keeps all byte-buffer traffic at concrete indices.
	if !dst.off.IsConst() {
		dst.off = ts.Const(64, ex.concretize(dst.off))
	}
	if !src.off.IsConst() {
		src.off = ts.Const(64, ex.concretize(src.off))
	}
	if dst.off.IsConst() && src.off.IsConst() {
		d0, s0 := int(dst.off.val), int(src.off.val)
		if dst.obj == src.obj && d0 == s0 {
			return ts.Const(64, uint64(n))
		}
		// fast path for large zero/fill regions is not needed; do cell copy with snapshot semantics
		if dst.obj == src.obj && s0 < d0 && d0 < s0+cells {
			for i := cells - 1; i >= 0; i-- {
				ex.writeCell(dst.obj, d0+i, ex.readCell(src.obj, s0+i))
			}
		} else {
			for i := 0; i < cells; i++ {
				ex.writeCell(dst.obj, d0+i, ex.readCell(src.obj, s0+i))
			}
		}
		return ts.Const(64, uint64(n))
	}
	// symbolic offsets: snapshot source then write
	if cells > 4096 {
		panic(unsupported("large copy at symbolic offset"))
	}
	tmp := make([]*Term, cells)
	for i := 0; i < cells; i++ {
		p := Pointer{obj: src.obj, off: ts.Add(src.off, ts.Const(64, uint64(i)))}
		v, ok := ex.loadCellAt(p).(*Term)
		if !ok {
			panic(unsupported("copy of non-integer cells at symbolic offset"))
		}
		tmp[i] = v
	}
	for i := 0; i < cells; i++ {
		off := ts.Add(dst.off, ts.Const(64, uint64(i)))
		if off.IsConst() {
			ex.writeCell(dst.obj, int(off.val), tmp[i])
		} else {
			ex.symWriteCell(dst.obj, off, tmp[i])
		}
	}
	return ts.Const(64, uint64(n))
}

func (ex *Exec) appendBuiltin(fr *Frame, s Slice, more Value, et types.Type) Value {
	ts := ex.ts
	var src Slice
	switch m := more.(type) {
	case Slice:
		src = m
	case string:
		src = ex.convert(types.Typ[types.String], types.NewSlice(types.Typ[types.Uint8]), m).(Slice)
	}
	if src.obj == nil {
		return s
	}
	addN := ex.concInt(src.len)
	if addN == 0 {
		return s
	}
	if s.es == 0 {
		s.es = src.es
	}
	var curLen, curCap int
	if s.obj != nil {
		curLen = ex.concInt(s.len)
		curCap = ex.concInt(s.cap)
	}
	newLen := curLen + addN
	if s.obj != nil && newLen <= curCap {
		d := Slice{obj: s.obj, off: ts.Add(s.off, ts.Const(64, uint64(curLen*s.es))), len: ts.Const(64, uint64(addN)), cap: ts.Const(64, uint64(addN)), es: s.es}
		ex.copyBuiltin(d, src)
		return Slice{obj: s.obj, off: s.off, len: ts.Const(64, uint64(newLen)), cap: s.cap, es: s.es}
	}
	// grow: new backing array (capacity growth policy: exact doubling approximation; capacity is
	// not observable by the code under test except through cap())
	newCap := curCap * 2
	if newCap < newLen {
		newCap = newLen
	}
	if et == nil {
		et = types.Typ[types.Uint8]
	}
	if fr != nil {
		ex.noteAlloc(fr, newCap*s.es)
	}
	o := ex.newObject(et, newCap, "append")
	ns := Slice{obj: o, off: ts.Const(64, 0), len: ts.Const(64, uint64(newLen)), cap: ts.Const(64, uint64(newCap)), es: s.es}
	if s.obj != nil && curLen > 0 {
		ex.copyBuiltin(Slice{obj: o, off: ts.Const(64, 0), len: ts.Const(64, uint64(curLen)), cap: ts.Const(64, uint64(curLen)), es: s.es}, Slice{obj: s.obj, off: s.off, len: ts.Const(64, uint64(curLen)), cap: ts.Const(64, uint64(curLen)), es: s.es})
	}
	ex.copyBuiltin(Slice{obj: o, off: ts.Const(64, uint64(curLen*s.es)), len: ts.Const(64, uint64(addN)), cap: ts.Const(64, uint64(addN)), es: s.es}, src)
	return ns
}

func fnName(fn *ssa.Function) string {
	return strings.TrimPrefix(fn.String(), "github.com/pierrec/lz4/v4")
}

// lookupMethod returns the method implementation or nil when typ has no such method.
func (ex *Exec) lookupMethod(typ types.Type, pkg *types.Package, name string) *ssa.Function {
	sel := ex.w.prog.MethodSets.MethodSet(typ).Lookup(pkg, name)
	if sel == nil {
		return nil
	}
	return ex.w.prog.MethodValue(sel)
}
