package main

import "fmt"

// Job tables for the block-compressor properties C01, C10, C11, C14.

var hcDepths = []int{0, 1, 2, 3, 512, 65537}

func compressJobs(tier, prop string) []*Job {
	var jobs []*Job
	thorough := tier == "thorough"
	nf, nh := 19, 17 // largest source length: fast / HC
	if thorough {
		nf, nh = 21, 18
	}
	addP := func(n, kind, depth, dl, period, tail int, tags string) {
		cfg := "go"
		if tags == "verif" {
			cfg = "asm"
		}
		j := mkJob(fmt.Sprintf("compress-%s-n%d-k%d-d%d-dl%d-p%d.%d", cfg, n, kind, depth, dl, period, tail), "H_compress", "internal/lz4block", tags, P("n", n, "kind", kind, "depth", depth, "dl", dl, "period", period, "tail", tail))
		j.Unwind = 6000
		jobs = append(jobs, j)
	}
	add := func(n, kind, depth, dl int, tags string) { addP(n, kind, depth, dl, 0, 0, tags) }
	// periodic family: long runs and periodic data with a few free bytes at the end
	periodic := func(kinds []int, dls func(n int) []int) {
		ns := []int{31, 64, 300}
		periods := []int{1, 2, 3}
		if thorough {
			ns = []int{24, 31, 40, 64, 100, 300, 560}
			periods = []int{1, 2, 3}
		}
		for _, n := range ns {
			for _, period := range periods {
				for _, tail := range []int{0, 1, 5, 12, 13} {
					for _, kind := range kinds {
						if (kind != 0 || (n >= 300 && !thorough) || n > 300) && tail > 5 {
							continue // reused-state, HC, (quick) 300-byte and 560-byte runs: at most 5 free trailing bytes
						}
						if kind != 0 && period == 4 {
							continue
						}
						depths := []int{0}
						if kind == 3 {
							depths = []int{0, 1}
							if thorough {
								depths = []int{0, 1, 512}
							}
						}
						for _, d := range depths {
							for _, dl := range dls(n) {
								addP(n, kind, d, dl, period, tail, "verif,noasm")
							}
						}
					}
				}
			}
		}
	}
	// literal-run family: a literal run of exactly l bytes (concrete, repeat-free) followed by a
	// match, for l around the length-code boundaries 15 and 15+255, with small destinations
	litrun := func(kinds []int, dls func(l, n int) []int) {
		ls := []int{13, 14, 15, 16, 17, 30, 269, 270, 271}
		if thorough {
			ls = append(ls, 1, 2, 7, 29, 31, 255, 256, 268, 272, 524, 525, 526)
		}
		for _, l := range ls {
			for _, tail := range []int{0, 2} {
				n := 2*l + 14 + tail
				for _, kind := range kinds {
					d := 0
					if kind >= 3 {
						d = 1
					}
					for _, dl := range dls(l, n) {
						addP(n, kind, d, dl, -l, tail, "verif,noasm")
					}
				}
			}
		}
	}
	// match-length family: a run of one byte whose length the solver chooses in a window of 17
	// values, then at least 20 concrete distinct bytes: the long match takes every length around
	// the points where the length code gains an extension byte: 4+15 (n = 48: runs 12..28),
	// 4+15+255 (n = 303: runs 267..283), 4+15+510 (n = 558: runs 522..538)
	matchlen := func(kinds []int, dls func(n int) []int) {
		for _, n := range []int{48, 303, 558} {
			for _, kind := range kinds {
				d := 0
				if kind >= 3 {
					d = 1
				}
				for _, dl := range dls(n) {
					addP(n, kind, d, dl, 1016, 20, "verif,noasm")
				}
			}
		}
	}
	switch prop {
	case "C01":
		matchlen([]int{0, 3}, func(n int) []int { return []int{-1} })
		for n := 0; n <= nf; n++ {
			for _, kind := range []int{0, 1, 2} {
				add(n, kind, 0, -1, "verif,noasm")
			}
			add(n, 0, 0, -1, "verif") // assembly decoder on the way back
		}
		for n := 0; n <= nh; n++ {
			for _, d := range hcDepths {
				if !thorough && n > 16 && (d == 3 || d == 65537) {
					continue
				}
				add(n, 3, d, -1, "verif,noasm")
				if d == 0 || d == 2 || thorough {
					add(n, 4, d, -1, "verif,noasm")
				}
				if d == 512 {
					add(n, 5, d, -1, "verif,noasm")
					add(n, 3, d, -1, "verif")
				}
			}
		}
		periodic([]int{0, 1, 3, 4}, func(n int) []int { return []int{-1} })
		litrun([]int{0, 3}, func(l, n int) []int { return []int{-1} })
		// long-literal-run family: 66070 incompressible bytes (a literal-length code with 259
		// extension bytes) followed by an 8 KiB run and two symbolic bytes, fast compressor
		addP(66070+8192+2, 0, 0, -1, -66070, 2, "verif,noasm")
		jobs[len(jobs)-1].Unwind = 3000000
		addP(66070+8192+2, 0, 0, -1, -66070, 2, "verif")
		jobs[len(jobs)-1].Unwind = 3000000
		jobs = append(jobs, histJobs(tier)...)
		// window family: sources just over 64 KiB (concrete periodic filler) holding the same
		// 8-byte window twice, 65534..65537 bytes apart, the second copy where the scan probes
		for _, d := range []int{65534, 65535, 65536, 65537} {
			for _, kind := range []int{0, 1, 3} {
				depth := 0
				if kind == 3 {
					depth = 1
				}
				addP(16+d+8+40, kind, depth, -1, d, 0, "verif,noasm")
				jobs[len(jobs)-1].Unwind = 3000000
			}
			addP(16+d+8+40, 0, 0, -1, d, 0, "verif")
			jobs[len(jobs)-1].Unwind = 3000000
		}
	case "C10":
		addP(66070+8192+2, 0, 0, -1, -66070, 2, "verif,noasm") // long-literal-run family
		jobs[len(jobs)-1].Unwind = 3000000
		for n := 0; n <= nf-1; n++ {
			for _, dl := range []int{-1, -2, n, n - 3, n / 2} {
				if dl < -2 || (dl >= 0 && dl > n) {
					continue
				}
				add(n, 0, 0, dl, "verif,noasm")
				if dl == -1 {
					add(n, 1, 0, dl, "verif,noasm")
				}
			}
		}
		for n := 0; n <= nh-1; n++ {
			for _, d := range []int{0, 2, 512} {
				for _, dl := range []int{-1, -2, n, n - 3} {
					if dl >= 0 && dl > n {
						continue
					}
					if !thorough && d == 2 && dl != -1 {
						continue
					}
					add(n, 3, d, dl, "verif,noasm")
				}
			}
		}
		periodic([]int{0, 3}, func(n int) []int { return []int{-1, -2, n / 2, n / 4} })
		litrun([]int{0, 3}, func(l, n int) []int { return []int{-1, -2, l + 8} })
		matchlen([]int{0, 3}, func(n int) []int { return []int{-1} })
	case "C11":
		nf, nh = nf-2, nh-1
		for n := 0; n <= nf; n++ {
			bound := n + n/255 + 16
			for _, dl := range dedup([]int{0, 1, 2, 3, n / 2, n - 1, n, n + 1, bound - 2, bound - 1, bound, bound + 2}) {
				if dl < 0 {
					continue
				}
				add(n, 0, 0, dl, "verif,noasm")
			}
			add(n, 2, 0, bound, "verif,noasm")
		}
		for n := 0; n <= nh; n++ {
			bound := n + n/255 + 16
			for _, d := range []int{0, 1, 3} {
				for _, dl := range dedup([]int{0, 1, 2, 3, n / 2, n - 1, n, n + 1, bound - 2, bound - 1, bound, bound + 2}) {
					if dl < 0 {
						continue
					}
					if !thorough && d != 0 && dl != 2 && dl != n/2 && dl != bound-1 && dl != bound {
						continue
					}
					add(n, 3, d, dl, "verif,noasm")
				}
			}
			add(n, 5, 1, bound, "verif,noasm")
		}
		matchlen([]int{0, 3}, func(n int) []int { return []int{-1, -2, 8} })
		// history: a call that failed (or succeeded) on another source first, then a destination of
		// the bound size must still give a complete block
		for _, j := range histJobs(tier) {
			if j.Harness == "H_compress_hist" {
				jobs = append(jobs, j)
			}
		}
		periodic([]int{0, 3}, func(n int) []int { return []int{-1, -2, n / 2, n / 4, 8, 3} })
		litrun([]int{0, 3}, func(l, n int) []int {
			if thorough {
				return dedup([]int{0, 1, 2, 3, 4, 5, l, l + 1, l + 2, l + 3, l + 4, l + 5, l + 6, l + 8, n / 2, -3, -2, -1})
			}
			return dedup([]int{0, 1, 2, 3, l + 1, l + 2, l + 3, l + 5, n / 2, -2, -1})
		})
	}
	return jobs
}

func dedup(xs []int) []int {
	seen := map[int]bool{}
	var out []int
	for _, x := range xs {
		if !seen[x] {
			seen[x] = true
			out = append(out, x)
		}
	}
	return out
}

func detJobs(tier string) []*Job {
	var jobs []*Job
	nf, nh := 18, 16
	if tier == "thorough" {
		nf, nh = 20, 17
	}
	addP := func(n, ka, kb, depth, dl, period, tail int) {
		j := mkJob(fmt.Sprintf("det-n%d-k%dv%d-d%d-dl%d-p%d.%d", n, ka, kb, depth, dl, period, tail), "H_compress_det", "internal/lz4block", "verif,noasm", P("n", n, "kindA", ka, "kindB", kb, "depth", depth, "dl", dl, "period", period, "tail", tail))
		j.Unwind = 6000
		jobs = append(jobs, j)
	}
	add := func(n, ka, kb, depth, dl int) { addP(n, ka, kb, depth, dl, 0, 0) }
	for _, n := range []int{31, 64, 300} {
		for _, period := range []int{1, 2, 3} {
			for _, tail := range []int{0, 1, 5} {
				addP(n, 1, 0, 0, -1, period, tail)
				addP(n, 4, 3, 0, -1, period, tail)
				addP(n, 5, 3, 1, n/2, period, tail)
			}
		}
	}
	for n := 0; n <= nf; n++ {
		for _, dl := range []int{-1, n} {
			add(n, 1, 0, 0, dl) // reused object with arbitrary tables vs fresh
			add(n, 2, 0, 0, dl) // package-level function with a dirty pooled object vs fresh
			if dl == -1 {
				add(n, 1, 2, 0, dl) // two different dirty states
			}
		}
	}
	jobs = append(jobs, histJobs(tier)...)
	// a source longer than 64 KiB (concrete filler) on a reused fast compressor whose table holds
	// arbitrary values vs a fresh one: beyond the first window the lookups must still ignore what
	// this call has not written. (On the real code one path; a change that lets stale entries
	// through makes the table contents matter and the job blows its path budget: inconclusive.)
	{
		j := mkJob("det-window-k1v0", "H_compress_det", "internal/lz4block", "verif,noasm", P("n", 65900, "kindA", 1, "kindB", 0, "depth", 0, "dl", -1, "period", 65536, "tail", 0))
		j.Unwind = 3000000
		j.MaxPaths = 150
		jobs = append(jobs, j)
	}
	for n := 0; n <= nh; n++ {
		for _, d := range []int{0, 1, 2, 512} {
			if tier != "thorough" && n > 14 && d == 1 {
				continue
			}
			add(n, 4, 3, d, -1)
			if d == 0 || d == 512 {
				add(n, 5, 3, d, -1)
				add(n, 4, 3, d, n)
			}
		}
	}
	return jobs
}

// histJobs: a first (usually failing) call on the same object, then the call under test.
func histJobs(tier string) []*Job {
	var jobs []*Job
	type shape struct{ n, period, tail int }
	firsts := []struct {
		s   shape
		dl0 int
	}{{shape{40, 1, 0}, 2}, {shape{40, 2, 3}, 5}, {shape{31, 3, 0}, 8}, {shape{40, 1, 0}, 60}, {shape{24, 2, 5}, 0}, {shape{40, 2, 3}, 70}}
	seconds := []shape{{40, 2, 3}, {31, 1, 5}, {64, 3, 1}, {40, 1, 0}}
	for _, kind := range []int{0, 3} {
		for fi, f := range firsts {
			for si, sc := range seconds {
				for _, dl := range []int{-1, sc.n / 2} {
					depth := 0
					if kind == 3 {
						depth = (fi + si) % 2
					}
					if tier != "thorough" && (fi+si+dl)%2 != 0 && kind == 0 {
						continue
					}
					for _, nmid := range []int{-1, 5} {
						if nmid >= 0 && (f.dl0 < 60 || dl != -1) {
							continue // the three-step history: successful block, tiny block, block under test
						}
						j := mkJob(fmt.Sprintf("hist-k%d-d%d-f%d-s%d-dl%d-m%d", kind, depth, fi, si, dl, nmid), "H_compress_hist", "internal/lz4block", "verif,noasm",
							P("kind", kind, "depth", depth, "n0", f.s.n, "period0", f.s.period, "tail0", f.s.tail, "dl0", f.dl0, "n", sc.n, "period", sc.period, "tail", sc.tail, "dl", dl, "nmid", nmid))
						j.Unwind = 6000
						jobs = append(jobs, j)
					}
				}
			}
		}
	}
	// frame level, sequential: the same input delivered in two ways (no Flush) gives identical frames
	fr := &lcg{s: 4242}
	for _, n := range []int{0, 1, 7, 40} {
		// only Write-call partitions: the statement is about splits across Write calls (ReadFrom
		// legitimately emits an extra empty block for an empty source)
		for _, pair := range [][2]int{{0, 1}, {0, 8}, {1, 8}, {1, 1}} {
			if n == 40 && pair[1] == 8 && tier != "thorough" {
				continue
			}
			period := 0
			if n == 40 {
				period = 2
			}
			j := mkJob(fmt.Sprintf("fdet-n%d-%dv%d", n, pair[0], pair[1]), "H_frame_det", "", "verif,noasm",
				P("n", n, "period", period, "bs", 4+fr.next(4), "bc", fr.next(2), "cc", fr.next(2), "sizeopt", fr.next(2), "level", fr.next(2), "legacy", 0, "delivA", pair[0], "delivB", pair[1], "k", fr.next(n+1), "k2", fr.next(n+1)))
			j.Unwind = 6000
			jobs = append(jobs, j)
		}
	}
	// ... and block-size inputs (64 KiB blocks, concrete compressible filler, two symbolic tail
	// bytes): one Write against a short Write followed by one that holds a full block and more
	// (the zero-copy path with bytes pending), and against two other split points
	for i, c := range [][3]int{{65536 + 100, 17, 0}, {131072 + 5, 65535, 1}, {65536 + 100, 65536, 1}, {70000, 1, 2}} {
		if tier != "thorough" && i >= 2 {
			continue
		}
		j := mkJob(fmt.Sprintf("fdet-big-n%d-k%d-d%d", c[0], c[1], c[2]), "H_frame_det", "", "verif,noasm",
			P("n", c[0], "period", -1200, "bs", 4, "bc", i%2, "cc", 1, "sizeopt", 0, "level", 0, "legacy", 0, "delivA", 0, "delivB", 1, "k", 0, "k2", c[1]))
		j.Unwind = 3000000
		jobs = append(jobs, j)
	}
	return jobs
}

func compressBounds(prop string) func(string) []string {
	return func(tier string) []string {
		nf, nh := 19, 17
		if tier == "thorough" {
			nf, nh = 21, 18
		}
		switch prop {
		case "C10":
			nf, nh = nf-1, nh-1
		case "C11":
			nf, nh = nf-2, nh-1
		case "C14":
			nf, nh = 18, 16
			if tier == "thorough" {
				nf, nh = 20, 17
			}
		}
		return []string{
			fmt.Sprintf("every source content (all bytes symbolic) at each length 0..%d for the fast compressor and 0..%d for the HC compressor (depths 0, 1, 2, 3, 512, 65537)", nf, nh),
			"long-literal-run family (C01, C10): 66070 concrete incompressible bytes, an 8 KiB run of one byte, two symbolic bytes; fast compressor (a literal-length code with 259 extension bytes)",
			"match-length family: a run of one byte whose length the solver chooses among 17 values, followed by at least 20 concrete distinct bytes (n = 48, 303, 558: runs 12..28, 267..283, 522..538): the long match takes every length around 4+15, 4+15+255 and 4+15+510, where its length code gains an extension byte; content concrete; fast and HC",
			"periodic family: sources of 24..300 (thorough ..560) bytes = a symbolic first period (1,2,3 bytes) repeated, plus 0..13 free symbolic bytes at the end (0..5 for reused-state, HC and 560-byte runs) (long matches, multi-byte length codes, matches running into the last 5/12 bytes)",
			"literal-run family: a literal run of exactly l concrete repeat-free bytes (l around 15 and 15+255: 13..17, 30, 269..271) followed by a match and 0/2 symbolic bytes, with destination lengths 0..5, l..l+8, n/2, bound-2..bound (C11)",
			"history family (C14): the same object first compresses another (periodic) source into a destination that is too short (or large enough), then the source under test; compared with a fresh object",
			"window family (C01): sources of 65.6 KB (concrete periodic filler) containing the same 8-byte window twice at a distance of 65534/65535/65536/65537 bytes, placed so that the scan probes the second copy; fast (fresh, reused) and HC; both decoders",
			"compressor states: fresh object; reused object with arbitrary prior table contents (SMT arrays); package-level function with such an object sitting in the pool",
			"destination: prior contents arbitrary, 16 bytes of spare capacity holding arbitrary canary bytes; lengths as listed per job (bound, bound-1, around len(src), small)",
			"both block decoders on the way back (portable SSA; amd64 assembly via asmsym) for C01",
		}
	}
}

var compressOutside = []string{
	"sources longer than the bound (in particular > 64 KiB other than the concrete window and long-literal-run families: 16-bit table positions, window limit 65535, multi-byte length codes)",
	"HC depths other than the listed ones",
	"ARM assembly decoders",
}

var compressAssumptions = []string{
	"blockHash / blockHashHC are summarised as arbitrary functions (of the low 48 / all 32 argument bits) with 16-bit results: an over-approximation of the real multiplicative hashes; counterexamples are confirmed natively with the real hash",
	"sync.Pool is modelled as a LIFO of explicitly Put values, New() otherwise",
	"reference block decoder and strict-format checker in harness/ref/block.go.tmpl",
}

func init() {
	for _, p := range []string{"C01", "C10", "C11"} {
		prop := p
		var filter func(string) bool
		switch prop {
		case "C01":
			filter = func(id string) bool {
				return hasPrefix(id, "roundtrip") || hasPrefix(id, "block-decodes") || id == "bound-size-succeeds" || hasPrefix(id, "no-panic") || hasPrefix(id, "asm-") || hasPrefix(id, "unwind")
			}
		case "C10":
			filter = func(id string) bool { return id == "block-strictly-valid" || id == "block-decodes" || id == "block-decodes-to-source" }
		case "C11":
			filter = func(id string) bool {
				return id == "src-unmodified" || id == "no-write-beyond-len" || id == "count-le-len" || id == "bound-size-succeeds" || id == "block-decodes" || id == "block-decodes-to-source" || hasPrefix(id, "roundtrip-hist") || hasPrefix(id, "no-panic") || hasPrefix(id, "unwind")
			}
		}
		checkDefs[prop] = &CheckDef{
			Property: prop,
			Jobs:     func(tier string) []*Job { return compressJobs(tier, prop) },
			Bounds:   compressBounds(prop), Outside: compressOutside, Assumptions: compressAssumptions,
			Filter: filter,
		}
	}
	checkDefs["C14"] = &CheckDef{
		Property: "C14",
		Jobs:     func(tier string) []*Job { return append(detJobs(tier), concWriterJobs(tier)...) },
		Bounds: func(tier string) []string {
			return append(compressBounds("C14")(tier), "frame level, concurrency: for ConcurrencyOption 2, 3 (thorough 4) and 13 call sequences of Write/Flush/ReadFrom/Close/Reset on 20- and 10-byte chunks (and one 64 KiB + 20 input), under every schedule with at most 2 (thorough 3) delays, the emitted bytes equal those of the same calls on a sequential Writer")
		},
		Outside:  append([]string{"frame level: schedules beyond the delay bound; symbolic content under concurrency (content is concrete there); the sequential clause covers one Write, two Writes at two split points, byte by byte, and for 64 KiB blocks inputs of 65636 / 131077 (thorough also 70000) bytes split at 17 / 65535 (65536 / 1)"}, compressOutside...),
		Assumptions: append([]string{concAssumptions[0], concAssumptions[1]}, compressAssumptions...),
		Filter:      func(id string) bool { return !hasPrefix(id, "conc-") && !hasPrefix(id, "cfault-") },
	}
}
