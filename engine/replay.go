package main

// Native replay of solver models: tapes are fed to the same harness functions
// compiled into an ordinary `go test` binary built from /repo's working tree
// with the harness files overlaid.

import (
	"bytes"
	"encoding/json"
	"fmt"
	"os"
	"os/exec"
	"path/filepath"
	"sort"
	"strings"
	"time"
)

type Outcome struct {
	Job     string            `json:"job"`
	Fail    string            `json:"fail"`
	InClass bool              `json:"in_class"`
	Known   string            `json:"known"`
	Reached []string          `json:"reached"`
	Notes   map[string]uint64 `json:"notes"`
	Panic   string            `json:"panic"`
	Hang    bool              `json:"hang"`
	Assume  bool              `json:"assume_failed"`
	TapeEnd bool              `json:"tape_exhausted"`
	Crash   bool              `json:"crash"`
	Missing bool              `json:"missing"`
}

const replayTestTmpl = `//go:build verif

package PKGNAME

import (
	"encoding/json"
	"os"
	"strconv"
	"testing"
	"time"
)

func TestVerifReplay(t *testing.T) {
	data, err := os.ReadFile(os.Getenv("VERIF_TAPES"))
	if err != nil {
		t.Fatal(err)
	}
	var tapes []vfTapeT
	if err := json.Unmarshal(data, &tapes); err != nil {
		t.Fatal(err)
	}
	start, _ := strconv.Atoi(os.Getenv("VERIF_START"))
	watchdog := 10 * time.Second
	if s := os.Getenv("VERIF_WATCHDOG_S"); s != "" {
		if n, err := strconv.Atoi(s); err == nil {
			watchdog = time.Duration(n) * time.Second
		}
	}
	out, err := os.OpenFile(os.Getenv("VERIF_OUT"), os.O_APPEND|os.O_CREATE|os.O_WRONLY, 0o644)
	if err != nil {
		t.Fatal(err)
	}
	defer out.Close()
	for i := start; i < len(tapes); i++ {
		// progress marker so that a crash can be attributed to tape i
		out.WriteString("{\"begin\":" + strconv.Itoa(i) + "}\n")
		out.Sync()
		ch := make(chan *vfOutcomeT, 1)
		go func() { ch <- vfRunTape(tapes[i]) }()
		select {
		case o := <-ch:
			b, _ := json.Marshal(o)
			out.Write(append(b, '\n'))
		case <-time.After(watchdog):
			b, _ := json.Marshal(&vfOutcomeT{Job: tapes[i].Job, Hang: true})
			out.Write(append(b, '\n'))
			out.Sync()
			os.Exit(0)
		}
	}
}
`

var pkgNames = map[string]string{"": "lz4", "internal/lz4block": "lz4block", "internal/lz4stream": "lz4stream", "internal/xxh32": "xxh32"}

// replayTapes runs the tapes natively (all must share pkg and tags) and returns one outcome per tape.
func replayTapes(tapes []*Tape, pkg, tags string, log *bytes.Buffer) ([]Outcome, error) {
	return replayTapesOpt(tapes, pkg, tags, log, false)
}

// replayTapesOpt: with race set the test binary is built with the Go race detector, which stops
// the process at the first data race it sees (reported as a crash of that tape).
func replayTapesOpt(tapes []*Tape, pkg, tags string, log *bytes.Buffer, race bool) ([]Outcome, error) {
	if len(tapes) == 0 {
		return nil, nil
	}
	wd := workDir()
	ov, err := harnessOverlay()
	if err != nil {
		return nil, err
	}
	pname := pkgNames[pkg]
	testFile := filepath.Join(wd, "gen", pname, "zz_verif_replay_test.go")
	os.MkdirAll(filepath.Dir(testFile), 0o755)
	if err := os.WriteFile(testFile, []byte(strings.ReplaceAll(replayTestTmpl, "PKGNAME", pname)), 0o644); err != nil {
		return nil, err
	}
	ov[filepath.Join(repoDir, pkg, "zz_verif_replay_test.go")] = testFile
	ovj, _ := json.Marshal(map[string]interface{}{"Replace": ov})
	uniq := fmt.Sprintf("%s_%s_%d", pname, strings.ReplaceAll(tags, ",", "-"), time.Now().UnixNano())
	ovPath := filepath.Join(wd, "overlay_"+uniq+".json")
	if err := os.WriteFile(ovPath, ovj, 0o644); err != nil {
		return nil, err
	}
	tapesPath := filepath.Join(wd, "tapes_"+uniq+".json")
	tj, _ := json.Marshal(tapes)
	if err := os.WriteFile(tapesPath, tj, 0o644); err != nil {
		return nil, err
	}
	outPath := filepath.Join(wd, "out_"+uniq+".jsonl")
	binPath := filepath.Join(wd, "replay_"+uniq+".test")
	target := "."
	if pkg != "" {
		target = "./" + pkg
	}
	env := append(os.Environ(), "GOFLAGS=-mod=mod", "GOPROXY=off", "GOSUMDB=off", "GOTOOLCHAIN=local",
		"VERIF_TAPES="+tapesPath, "VERIF_OUT="+outPath)
	// build once
	bargs := []string{"test", "-c", "-vet=off", "-tags", tags, "-overlay", ovPath, "-o", binPath}
	if race {
		bargs = append(bargs, "-race")
		env = append(env, "GORACE=halt_on_error=1 exitcode=66")
	}
	build := exec.Command("go", append(bargs, target)...)
	build.Dir = repoDir
	build.Env = env
	bo, err := build.CombinedOutput()
	if err != nil {
		return nil, fmt.Errorf("replay build failed: %v\n%s", err, bo)
	}
	defer os.Remove(binPath)
	outs := make([]Outcome, len(tapes))
	for i := range outs {
		outs[i].Missing = true
	}
	start := 0
	for attempts := 0; start < len(tapes) && attempts < len(tapes)+2; attempts++ {
		os.Remove(outPath)
		cmd := exec.Command("timeout", "600", binPath, "-test.run", "^TestVerifReplay$", "-test.count=1", "-test.timeout=590s")
		cmd.Dir = filepath.Join(repoDir, pkg)
		cmd.Env = append(env, fmt.Sprintf("VERIF_START=%d", start))
		co, rerr := cmd.CombinedOutput()
		if log != nil {
			fmt.Fprintf(log, "replay run (start=%d): err=%v\n%s\n", start, rerr, tail(co, 2000))
		}
		data, _ := os.ReadFile(outPath)
		cur := -1
		last := start - 1
		for _, line := range strings.Split(string(data), "\n") {
			line = strings.TrimSpace(line)
			if line == "" {
				continue
			}
			if strings.HasPrefix(line, "{\"begin\":") {
				fmt.Sscanf(line, "{\"begin\":%d}", &cur)
				continue
			}
			var o Outcome
			if err := json.Unmarshal([]byte(line), &o); err != nil {
				continue
			}
			if cur >= 0 && cur < len(outs) {
				outs[cur] = o
				last = cur
				cur = -1
			}
		}
		if cur >= 0 && cur < len(outs) {
			// began but never finished: the process died in this tape
			msg := "process died: " + tail(co, 600)
			if i := bytes.Index(co, []byte("WARNING: DATA RACE")); i >= 0 {
				end := i + 1200
				if end > len(co) {
					end = len(co)
				}
				msg = string(co[i:end])
			}
			outs[cur] = Outcome{Job: tapes[cur].Job, Crash: true, Panic: msg}
			last = cur
		}
		if last+1 <= start {
			// no progress at all
			if start < len(outs) && outs[start].Missing {
				outs[start] = Outcome{Job: tapes[start].Job, Crash: true, Panic: "no outcome produced: " + tail(co, 600)}
			}
			start++
		} else {
			start = last + 1
		}
	}
	return outs, nil
}

func tail(b []byte, n int) string {
	if len(b) > n {
		b = b[len(b)-n:]
	}
	return string(b)
}

// judgeTape compares a native outcome with the engine's prediction.
// Returns (confirmed, mismatchReason).
func judgeTape(tp *Tape, o Outcome) (bool, string) {
	if o.Missing {
		return false, "no native outcome"
	}
	if o.Assume || o.TapeEnd {
		return false, fmt.Sprintf("native run left the modelled path (assume_failed=%v tape_exhausted=%v)", o.Assume, o.TapeEnd)
	}
	noteDiff := func() string {
		var ks []string
		for k := range tp.Expect.Notes {
			ks = append(ks, k)
		}
		sort.Strings(ks)
		for _, k := range ks {
			if nv, ok := o.Notes[k]; ok && nv != tp.Expect.Notes[k] {
				return fmt.Sprintf("note %s: engine predicted %d, native %d", k, tp.Expect.Notes[k], nv)
			}
		}
		return ""
	}
	switch tp.Kind {
	case "witness":
		if o.Fail != "" || o.Panic != "" || o.Hang || o.Crash {
			return false, fmt.Sprintf("witness run failed natively: fail=%q panic=%q hang=%v crash=%v", o.Fail, o.Panic, o.Hang, o.Crash)
		}
		found := false
		for _, l := range o.Reached {
			if l == tp.Expect.Reach {
				found = true
			}
		}
		if !found {
			return false, "witness did not reach " + tp.Expect.Reach + " natively"
		}
		if d := noteDiff(); d != "" {
			return false, d
		}
		return true, ""
	default:
		want := tp.Expect.Fail
		switch {
		case strings.HasPrefix(want, "unwind"):
			if o.Hang || o.Crash {
				return true, ""
			}
			return false, "engine hit its loop bound but the native run terminated (bound too small, not a violation)"
		case strings.HasPrefix(want, "asm-"):
			// obligations of the assembly model (out-of-bounds access, clobbered register): any
			// native misbehaviour confirms them
			if o.Fail != "" || o.Panic != "" || o.Crash || o.Hang {
				return true, ""
			}
			return false, "engine predicted an out-of-bounds access by the assembly, the native run shows no misbehaviour"
		case strings.HasPrefix(want, "alloc-bounded"):
			// predicted: a single allocation of N cells (bytes); natively: bytes allocated during the run
			var n uint64
			if i := strings.Index(want, "allocation of "); i >= 0 {
				fmt.Sscanf(want[i:], "allocation of %d cells", &n)
			}
			if got := o.Notes["__alloc_bytes"]; n > 0 && got >= n/10*9 {
				return true, ""
			}
			if o.Crash || o.Panic != "" {
				return true, "" // out of memory / makeslice panic
			}
			return false, fmt.Sprintf("engine predicted an allocation of %d bytes, the native run allocated %d in total", n, o.Notes["__alloc_bytes"])
		case strings.HasPrefix(want, "conc-race"):
			if o.Crash && strings.Contains(o.Panic, "DATA RACE") {
				return true, ""
			}
			return false, fmt.Sprintf("the Go race detector reported nothing in this native run (fail=%q panic=%q)", o.Fail, o.Panic)
		case strings.HasPrefix(want, "conc-deadlock"):
			if o.Hang || (o.Crash && strings.Contains(o.Panic, "all goroutines are asleep")) {
				return true, ""
			}
			if o.Crash {
				// the process died on this input (e.g. the race detector stopped it): misbehaviour all the same
				return true, ""
			}
			return false, fmt.Sprintf("the native run did not hang (fail=%q panic=%q)", o.Fail, o.Panic)
		case strings.HasPrefix(want, "no-panic"):
			if o.Panic != "" || o.Crash {
				return true, ""
			}
			return false, fmt.Sprintf("engine predicted a panic, native outcome fail=%q", o.Fail)
		}
		if o.Crash || o.Hang {
			// a crash/hang before the predicted assertion is still a confirmed misbehaviour of the real code
			return true, ""
		}
		if o.Fail == want {
			if d := noteDiff(); d != "" {
				return false, d
			}
			return true, ""
		}
		return false, fmt.Sprintf("engine predicted failure of %q, native outcome fail=%q panic=%q", want, o.Fail, o.Panic)
	}
}
