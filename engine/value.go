package main

import (
	"fmt"
	"go/types"
	"sync"

	"golang.org/x/tools/go/ssa"
)

// Value is one of:
//   *Term                (bool / integer)
//   Pointer
//   Slice
//   string               (concrete only)
//   Iface
//   *Closure
//   Struct ([]Value)
//   Array  (*ArrayVal)
//   Tuple  ([]Value)
//   *ChanVal (conc.go)
//   *MapVal
//   nil                  (zero func / untyped nil placeholder)
type Value interface{}

type Pointer struct {
	obj        *Object // nil => nil pointer
	off        *Term   // cell offset (64-bit)
	lo, hi, st int32   // hint: extent [lo,hi) and stride of the region a symbolic offset ranges over (hi==0: unknown)
}

type Slice struct {
	obj           *Object // nil => nil slice
	off, len, cap *Term   // 64-bit terms; off in cells of elemsize 1 unit = es cells
	es            int     // cells per element
}

type Iface struct {
	typ types.Type // nil => nil interface
	val Value
}

type Closure struct {
	fn   *ssa.Function
	env  []Value
	bltn string // builtin name, if any
}

type Struct []Value
type Tuple []Value

type ArrayVal struct {
	elems []Value // nil => all zero (large zero arrays)
	n     int
	zero  Value
}

func (a *ArrayVal) at(i int) Value {
	if a.elems == nil {
		return a.zero
	}
	return a.elems[i]
}


type MapVal struct {
	m map[interface{}]Value
}

// RangeIter for range over string (concrete)
type RangeIter struct {
	s   string
	pos int
}

// ---------- type layout ----------

type Layout struct {
	size   int // number of cells
	kind   int // 0 scalar, 1 array, 2 struct
	typ    types.Type
	elem   *Layout
	n      int
	fields []*Layout
	offs   []int
}

type typeInfo struct {
	layouts map[types.Type]*Layout
}

var layoutCache sync.Map

func layoutOf(t types.Type) *Layout {
	if l, ok := layoutCache.Load(t); ok {
		return l.(*Layout)
	}
	var l *Layout
	switch u := t.Underlying().(type) {
	case *types.Array:
		e := layoutOf(u.Elem())
		l = &Layout{size: e.size * int(u.Len()), kind: 1, typ: t, elem: e, n: int(u.Len())}
	case *types.Struct:
		l = &Layout{kind: 2, typ: t}
		off := 0
		for i := 0; i < u.NumFields(); i++ {
			f := layoutOf(u.Field(i).Type())
			l.fields = append(l.fields, f)
			l.offs = append(l.offs, off)
			off += f.size
		}
		l.size = off
	default:
		l = &Layout{size: 1, kind: 0, typ: t}
	}
	layoutCache.Store(t, l)
	return l
}

// scalarTypeAt returns the scalar type of cell i within layout l.
func (l *Layout) scalarTypeAt(i int) types.Type {
	for {
		switch l.kind {
		case 0:
			return l.typ
		case 1:
			if l.elem.size == 0 {
				return nil
			}
			i = i % l.elem.size
			l = l.elem
		case 2:
			// find field
			k := len(l.offs) - 1
			for k > 0 && l.offs[k] > i {
				k--
			}
			// skip zero-sized trailing fields
			for k < len(l.fields)-1 && l.fields[k].size == 0 {
				k++
			}
			i -= l.offs[k]
			l = l.fields[k]
		}
	}
}

func intWidth(t types.Type) (w uint8, signed bool, ok bool) {
	b, isb := t.Underlying().(*types.Basic)
	if !isb {
		return 0, false, false
	}
	switch b.Kind() {
	case types.Bool, types.UntypedBool:
		return 0, false, true
	case types.Int8:
		return 8, true, true
	case types.Int16:
		return 16, true, true
	case types.Int32, types.UntypedRune:
		return 32, true, true
	case types.Int64, types.Int, types.UntypedInt:
		return 64, true, true
	case types.Uint8:
		return 8, false, true
	case types.Uint16:
		return 16, false, true
	case types.Uint32:
		return 32, false, true
	case types.Uint64, types.Uint, types.Uintptr:
		return 64, false, true
	}
	return 0, false, false
}

// zeroValue returns the zero Value of type t (aggregates built eagerly unless huge).
func (ex *Exec) zeroValue(t types.Type) Value {
	switch u := t.Underlying().(type) {
	case *types.Basic:
		if w, _, ok := intWidth(t); ok {
			return ex.ts.Const(w, 0)
		}
		if u.Info()&types.IsString != 0 {
			return ""
		}
		if u.Kind() == types.UnsafePointer {
			return Pointer{}
		}
		if u.Kind() == types.UntypedNil {
			return nil
		}
		if u.Info()&types.IsFloat != 0 {
			return float64(0)
		}
		panic(unsupported("zero of basic " + t.String()))
	case *types.Pointer:
		return Pointer{}
	case *types.Slice:
		return Slice{es: layoutOf(u.Elem()).size}
	case *types.Interface:
		return Iface{}
	case *types.Signature:
		return (*Closure)(nil)
	case *types.Chan:
		return (*ChanVal)(nil)
	case *types.Map:
		return (*MapVal)(nil)
	case *types.Struct:
		s := make(Struct, u.NumFields())
		for i := range s {
			s[i] = ex.zeroValue(u.Field(i).Type())
		}
		return s
	case *types.Array:
		n := int(u.Len())
		z := ex.zeroValue(u.Elem())
		if n > 64 {
			return &ArrayVal{n: n, zero: z}
		}
		a := &ArrayVal{n: n, zero: z, elems: make([]Value, n)}
		for i := range a.elems {
			a.elems[i] = ex.zeroValue(u.Elem())
		}
		return a
	case *types.Tuple:
		tu := make(Tuple, u.Len())
		for i := range tu {
			tu[i] = ex.zeroValue(u.At(i).Type())
		}
		return tu
	}
	panic(unsupported("zero of " + t.String()))
}

type unsupportedErr struct{ msg string }

func unsupported(msg string) unsupportedErr { return unsupportedErr{msg} }

func (u unsupportedErr) Error() string { return "unsupported: " + u.msg }

func valueString(v Value) string {
	switch x := v.(type) {
	case *Term:
		if x == nil {
			return "<nil term>"
		}
		return x.String()
	case Pointer:
		if x.obj == nil {
			return "nil-ptr"
		}
		return fmt.Sprintf("&obj%d[%s]", x.obj.id, x.off)
	case Slice:
		if x.obj == nil {
			return "nil-slice"
		}
		return fmt.Sprintf("obj%d[%s:+%s cap %s]", x.obj.id, x.off, x.len, x.cap)
	case string:
		return fmt.Sprintf("%q", x)
	case Iface:
		if x.typ == nil {
			return "nil-iface"
		}
		return fmt.Sprintf("iface(%s,%s)", x.typ, valueString(x.val))
	case *Closure:
		if x == nil {
			return "nil-func"
		}
		if x.fn != nil {
			return "func " + x.fn.String()
		}
		return "builtin " + x.bltn
	}
	return fmt.Sprintf("%T", v)
}
