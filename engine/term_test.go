package main

import "testing"

func TestLE32Normal(t *testing.T) {
	ts := NewTermStore()
	b := []*Term{ts.Var("b0", 8), ts.Var("b1", 8), ts.Var("b2", 8), ts.Var("b3", 8)}
	z := func(x *Term) *Term { return ts.ZExt(x, 32) }
	sh := func(x *Term, k uint64) *Term { return ts.Bin(OpShl, x, ts.Const(32, k)) }
	manual := ts.Or(ts.Or(ts.Or(z(b[0]), sh(z(b[1]), 8)), sh(z(b[2]), 16)), sh(z(b[3]), 24))
	cc := ts.Concat(b[3], ts.Concat(b[2], ts.Concat(b[1], b[0])))
	if manual != cc {
		t.Fatalf("manual=%s\nconcat=%s", manual, cc)
	}
}
