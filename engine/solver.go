package main

// Long-lived SMT solver process (z3 -in) with incremental define-fun emission.

import (
	"bufio"
	"fmt"
	"io"
	"os"
	"os/exec"
	"strconv"
	"strings"
	"time"
)

type Result int

const (
	Unsat Result = iota
	Sat
	Unknown
)

func (r Result) String() string { return [...]string{"unsat", "sat", "unknown"}[r] }

type SolverStats struct {
	Queries, Sat, Unsat, Unknown, Errors int
	Time                                 time.Duration
	MaxQuery                             time.Duration
	Hist                                 [6]int           // <5ms <20ms <100ms <500ms <2s >=2s
	HistTime                             [6]time.Duration
}

func (s *SolverStats) add(o SolverStats) {
	s.Queries += o.Queries
	s.Sat += o.Sat
	s.Unsat += o.Unsat
	s.Unknown += o.Unknown
	s.Errors += o.Errors
	s.Time += o.Time
	if o.MaxQuery > s.MaxQuery {
		s.MaxQuery = o.MaxQuery
	}
	for i := range s.Hist {
		s.Hist[i] += o.Hist[i]
		s.HistTime[i] += o.HistTime[i]
	}
}

type Solver struct {
	ts        *TermStore
	cmd       *exec.Cmd
	in        *bufio.Writer
	inRaw     io.WriteCloser
	out       *bufio.Reader
	gen       int
	declared  map[string]int
	depth     int
	timeoutMs int
	stats     SolverStats
	sawError  bool
	lastErr   string
	logf      *os.File
	kind      string // z3 | z3-new | cvc5
	nDefs     int
	where     func() string
	checkCmd  string
	stack     [][]*Term // asserted terms per push level (level 0 = base)
	deaths    int       // number of times the solver process died
	fbActive  bool              // last Check was answered by the fallback process; values come from fbEnv
	fbEnv     map[string]uint64 // model of the fallback run
	fastMs    int       // first-attempt timeout; on unknown the session is rebuilt and the query retried with timeoutMs
	Retries   int
}

func NewSolver(ts *TermStore, kind string, timeoutMs int) *Solver {
	s := &Solver{ts: ts, kind: kind, timeoutMs: timeoutMs, declared: map[string]int{}, checkCmd: "(check-sat)"}
	if k := os.Getenv("VERIF_SOLVER"); k != "" {
		s.kind = k
	}
	if s.kind == "z3" {
		// z3 4.8.12's incremental core (used after push) stalls on bit-vector/UF queries that the
		// default tactic decides in milliseconds; run the tactic on the current assertion stack.
		s.checkCmd = "(check-sat-using default)"
	}
	if c := os.Getenv("VERIF_CHECKCMD"); c != "" {
		s.checkCmd = c
	}
	s.fastMs = 300
	if v := os.Getenv("VERIF_FAST_MS"); v != "" {
		s.fastMs, _ = strconv.Atoi(v)
	}
	s.start()
	return s
}

func (s *Solver) start() {
	var cmd *exec.Cmd
	switch s.kind {
	case "z3-new":
		cmd = exec.Command("z3-new", "-in")
	case "cvc5":
		cmd = exec.Command("cvc5", "--incremental", "--lang=smt2", "--produce-models", fmt.Sprintf("--tlimit-per=%d", s.timeoutMs))
	default:
		cmd = exec.Command("z3", "-in")
	}
	inp, err := cmd.StdinPipe()
	if err != nil {
		panic(err)
	}
	outp, err := cmd.StdoutPipe()
	if err != nil {
		panic(err)
	}
	cmd.Stderr = os.Stderr
	if err := cmd.Start(); err != nil {
		panic(err)
	}
	s.cmd = cmd
	s.inRaw = inp
	s.in = bufio.NewWriterSize(inp, 1<<16)
	s.out = bufio.NewReaderSize(outp, 1<<16)
	s.gen++
	s.depth = 0
	s.nDefs = 0
	s.stack = [][]*Term{nil}
	if p := os.Getenv("VERIF_SMTLOG"); p != "" && s.logf == nil {
		s.logf, _ = os.Create(fmt.Sprintf("%s.%d", p, os.Getpid()))
	}
	s.preamble()
}

func (s *Solver) preamble() {
	s.send("(set-option :global-declarations true)")
	if s.kind != "cvc5" {
		if s.fastMs > 0 && s.fastMs < s.timeoutMs {
			s.send(fmt.Sprintf("(set-option :timeout %d)", s.fastMs))
		} else {
			s.send(fmt.Sprintf("(set-option :timeout %d)", s.timeoutMs))
		}
		s.send("(set-option :model.completion true)")
	} else {
		s.send("(set-logic ALL)")
	}
}

func (s *Solver) send(str string) {
	s.in.WriteString(str)
	s.in.WriteByte('\n')
	if s.logf != nil {
		s.logf.WriteString(str + "\n")
	}
}

func (s *Solver) Close() {
	if s.cmd != nil {
		s.send("(exit)")
		s.in.Flush()
		s.inRaw.Close()
		done := make(chan struct{})
		go func() { s.cmd.Wait(); close(done) }()
		select {
		case <-done:
		case <-time.After(2 * time.Second):
			s.cmd.Process.Kill()
		}
		s.cmd = nil
	}
}

// Restart kills the process and starts a fresh one (all definitions are lost).
func (s *Solver) Restart() {
	if s.cmd != nil {
		s.cmd.Process.Kill()
		s.cmd.Wait()
	}
	s.start()
}

func (s *Solver) declare(t *Term) {
	// iterative post-order
	type fr struct {
		t *Term
		k int
	}
	stack := []fr{{t, 0}}
	for len(stack) > 0 {
		f := &stack[len(stack)-1]
		x := f.t
		if x.emitted == s.gen || x.op == OpConst {
			stack = stack[:len(stack)-1]
			continue
		}
		var child *Term
		switch f.k {
		case 0:
			child = x.a
		case 1:
			child = x.b
		case 2:
			child = x.c
		}
		if f.k < 3 {
			f.k++
			if child != nil && child.emitted != s.gen && child.op != OpConst {
				stack = append(stack, fr{child, 0})
			}
			continue
		}
		// emit
		switch x.op {
		case OpVar:
			s.send(fmt.Sprintf("(declare-const %s %s)", x.name, sortOf(x.w)))
		case OpSelect:
			if s.declared[x.name] != s.gen {
				s.declared[x.name] = s.gen
				s.send(fmt.Sprintf("(declare-const %s (Array %s %s))", x.name, sortOf(uint8(x.val)), sortOf(x.w)))
			}
			s.send(fmt.Sprintf("(define-fun t%d () %s %s)", x.id, sortOf(x.w), x.body()))
			s.nDefs++
		case OpApply:
			if s.declared[x.name] != s.gen {
				s.declared[x.name] = s.gen
				s.send(fmt.Sprintf("(declare-fun %s (%s) %s)", x.name, sortOf(x.a.w), sortOf(x.w)))
			}
			s.send(fmt.Sprintf("(define-fun t%d () %s %s)", x.id, sortOf(x.w), x.body()))
			s.nDefs++
		default:
			s.send(fmt.Sprintf("(define-fun t%d () %s %s)", x.id, sortOf(x.w), x.body()))
			s.nDefs++
		}
		x.emitted = s.gen
		stack = stack[:len(stack)-1]
	}
}

func (s *Solver) Push() {
	s.send("(push 1)")
	s.depth++
	s.stack = append(s.stack, nil)
}

func (s *Solver) Pop() {
	s.send("(pop 1)")
	s.depth--
	if len(s.stack) > 1 {
		s.stack = s.stack[:len(s.stack)-1]
	}
}

func (s *Solver) PopTo(d int) {
	for s.depth > d {
		s.Pop()
	}
}

func (s *Solver) Assert(t *Term) {
	if t.w != 0 {
		panic("assert non-bool")
	}
	if t.IsTrue() {
		return
	}
	s.declare(t)
	s.send("(assert " + t.ref() + ")")
	if len(s.stack) == 0 {
		s.stack = [][]*Term{nil}
	}
	s.stack[len(s.stack)-1] = append(s.stack[len(s.stack)-1], t)
}

// rebuild resets the solver session ((reset) drops every definition and learned clause) and
// re-establishes the current assertion stack.
func (s *Solver) rebuild() {
	s.send("(reset)")
	s.gen++
	s.nDefs = 0
	s.preamble()
	st := s.stack
	for lvl, terms := range st {
		if lvl > 0 {
			s.send("(push 1)")
		}
		for _, t := range terms {
			s.declare(t)
			s.send("(assert " + t.ref() + ")")
		}
	}
}

func (s *Solver) readLine() (string, error) {
	line, err := s.out.ReadString('\n')
	return strings.TrimSpace(line), err
}

// Check runs (check-sat) under the current assertions. A first attempt uses the short
// timeout; if it is inconclusive the session is rebuilt from scratch (incremental z3 sessions
// degrade as definitions and learned clauses pile up) and the query retried with the full timeout.
func (s *Solver) Check() Result {
	t0 := time.Now()
	s.fbActive = false
	errsBefore := s.stats.Errors
	res := s.check1()
	if s.stats.Errors != errsBefore && s.cmd != nil {
		// the solver printed an error (e.g. "push canceled" when the time limit hits inside a
		// push): the session's assertion stack can no longer be trusted. Decide this query in a
		// fresh process and rebuild the session.
		res = s.fallbackCheck()
		s.rebuild()
		if res != Unknown {
			s.sawError = false
		}
	} else if res == Unknown && s.cmd != nil && s.fastMs > 0 && s.fastMs < s.timeoutMs {
		// the incremental core stalls on some queries that a fresh non-incremental run decides
		// quickly: re-decide the current assertion stack in a fresh solver process.
		s.Retries++
		res = s.fallbackCheck()
	}
	d := time.Since(t0)
	if d > 300*time.Millisecond && s.where != nil && os.Getenv("VERIF_DEBUG") != "" {
		fmt.Fprintf(os.Stderr, "SLOW query %v res=%v %s\n", d, res, s.where())
	}
	s.stats.Queries++
	s.stats.Time += d
	if d > s.stats.MaxQuery {
		s.stats.MaxQuery = d
	}
	b := 5
	for i, lim := range []time.Duration{5 * time.Millisecond, 20 * time.Millisecond, 100 * time.Millisecond, 500 * time.Millisecond, 2 * time.Second} {
		if d < lim {
			b = i
			break
		}
	}
	s.stats.Hist[b]++
	s.stats.HistTime[b] += d
	switch res {
	case Sat:
		s.stats.Sat++
	case Unsat:
		s.stats.Unsat++
	default:
		s.stats.Unknown++
	}
	return res
}

func (s *Solver) setTimeout(ms int) {
	if s.kind != "cvc5" {
		s.send(fmt.Sprintf("(set-option :timeout %d)", ms))
	}
}

func (s *Solver) check1() Result {
	s.send(s.checkCmd)
	s.in.Flush()
	res := Unknown
	for {
		line, err := s.readLine()
		if err != nil {
			s.sawError = true
			s.lastErr = "solver died: " + err.Error()
			s.stats.Errors++
			s.deaths++
			// restart so later queries can proceed; caller must treat as unknown
			s.Restart()
			return Unknown
		}
		if line == "sat" {
			res = Sat
			break
		}
		if line == "unsat" {
			res = Unsat
			break
		}
		if line == "unknown" || line == "timeout" {
			res = Unknown
			break
		}
		if strings.HasPrefix(line, "(error") {
			s.sawError = true
			s.lastErr = line
			s.stats.Errors++
			continue
		}
	}
	return res
}

// CheckWith checks satisfiability of current assertions plus extra (not retained).
func (s *Solver) CheckWith(extra ...*Term) Result {
	for _, e := range extra {
		if e.IsFalse() {
			return Unsat
		}
	}
	d := s.deaths
	s.Push()
	for _, e := range extra {
		s.Assert(e)
	}
	r := s.Check()
	if s.deaths == d {
		s.Pop()
	}
	return r
}

// fallbackCheck decides the current assertion stack with fresh solver processes (z3 5.1.0, then
// z3 4.8.12), non-incrementally, with the full timeout. On sat the model of all variables, array
// reads and function applications is kept for GetValues.
func (s *Solver) fallbackCheck() Result {
	var asserts []*Term
	for _, lvl := range s.stack {
		asserts = append(asserts, lvl...)
	}
	dir := workDir()
	path := fmt.Sprintf("%s/fb_%p_%d.smt2", dir, s, s.stats.Queries)
	f, err := os.Create(path)
	if err != nil {
		return Unknown
	}
	w := bufio.NewWriter(f)
	vars, apps := s.ts.DumpStandaloneModel(w, asserts)
	w.Flush()
	f.Close()
	defer os.Remove(path)
	secs := s.timeoutMs / 1000
	if secs < 1 {
		secs = 1
	}
	for _, bin := range []string{"z3-new", "z3"} {
		out, _ := exec.Command(bin, fmt.Sprintf("-T:%d", secs), path).Output()
		text := string(out)
		first := strings.TrimSpace(strings.SplitN(text, "\n", 2)[0])
		switch first {
		case "unsat":
			return Unsat
		case "sat":
			rest := ""
			if i := strings.Index(text, "\n"); i >= 0 {
				rest = text[i+1:]
			}
			vals := parseValues(rest)
			if len(vals) != len(vars)+2*len(apps) {
				s.sawError = true
				s.lastErr = fmt.Sprintf("fallback model parse: got %d values, want %d", len(vals), len(vars)+2*len(apps))
				return Unknown
			}
			env := make(map[string]uint64, len(vals))
			for i, v := range vars {
				env[v.name] = vals[i]
			}
			for i, a := range apps {
				arg, val := vals[len(vars)+2*i], vals[len(vars)+2*i+1]
				if a.op == OpSelect {
					env[fmt.Sprintf("%s[%d]", a.name, arg)] = val
				} else {
					env[fmt.Sprintf("%s(%d)", a.name, arg)] = val
				}
			}
			s.fbEnv = env
			s.fbActive = true
			return Sat
		}
	}
	return Unknown
}

// GetValues must be called right after a Sat Check (before pop). Returns values of terms.
func (s *Solver) GetValues(terms []*Term) ([]uint64, bool) {
	if len(terms) == 0 {
		return nil, true
	}
	if s.fbActive {
		out := make([]uint64, len(terms))
		memo := map[*Term]uint64{}
		for i, t := range terms {
			out[i] = s.ts.Eval(t, s.fbEnv, memo)
		}
		return out, true
	}
	out := make([]uint64, len(terms))
	const chunk = 200
	for base := 0; base < len(terms); base += chunk {
		end := base + chunk
		if end > len(terms) {
			end = len(terms)
		}
		var sb strings.Builder
		sb.WriteString("(get-value (")
		for _, t := range terms[base:end] {
			s.declare(t)
		}
		for _, t := range terms[base:end] {
			sb.WriteString(t.ref())
			sb.WriteByte(' ')
		}
		sb.WriteString("))")
		s.send(sb.String())
		s.in.Flush()
		// read balanced s-expression
		var buf strings.Builder
		depth := 0
		started := false
		for !started || depth > 0 {
			line, err := s.out.ReadString('\n')
			if err != nil {
				return nil, false
			}
			if strings.HasPrefix(strings.TrimSpace(line), "(error") && !started {
				s.sawError = true
				s.lastErr = line
				return nil, false
			}
			for _, ch := range line {
				if ch == '(' {
					depth++
					started = true
				} else if ch == ')' {
					depth--
				}
			}
			buf.WriteString(line)
		}
		vals := parseValues(buf.String())
		if len(vals) != end-base {
			s.sawError = true
			s.lastErr = "get-value parse: " + buf.String()
			return nil, false
		}
		copy(out[base:end], vals)
	}
	return out, true
}

// parseValues extracts the value literals from a get-value response, in order.
func parseValues(resp string) []uint64 {
	var vals []uint64
	// tokens: each pair is "(name value)"; value is #x.., #b.., true, false, or (_ bvN w)
	toks := tokenize(resp)
	// structure: ( ( name value ) ( name value ) ... )
	i := 0
	if i < len(toks) && toks[i] == "(" {
		i++
	}
	for i < len(toks) {
		if toks[i] != "(" {
			i++
			continue
		}
		i++ // (
		// name: either atom or parenthesised expr
		i = skipSexp(toks, i)
		// value
		if i >= len(toks) {
			break
		}
		if toks[i] == "(" {
			// (_ bvN w)
			j := skipSexp(toks, i)
			v := uint64(0)
			for _, t := range toks[i:j] {
				if strings.HasPrefix(t, "bv") {
					v, _ = strconv.ParseUint(t[2:], 10, 64)
				}
			}
			vals = append(vals, v)
			i = j
		} else {
			t := toks[i]
			switch {
			case t == "true":
				vals = append(vals, 1)
			case t == "false":
				vals = append(vals, 0)
			case strings.HasPrefix(t, "#x"):
				v, _ := strconv.ParseUint(t[2:], 16, 64)
				vals = append(vals, v)
			case strings.HasPrefix(t, "#b"):
				v, _ := strconv.ParseUint(t[2:], 2, 64)
				vals = append(vals, v)
			default:
				vals = append(vals, 0)
			}
			i++
		}
		// closing )
		if i < len(toks) && toks[i] == ")" {
			i++
		}
	}
	return vals
}

func skipSexp(toks []string, i int) int {
	if i >= len(toks) {
		return i
	}
	if toks[i] != "(" {
		return i + 1
	}
	d := 0
	for i < len(toks) {
		if toks[i] == "(" {
			d++
		} else if toks[i] == ")" {
			d--
			if d == 0 {
				return i + 1
			}
		}
		i++
	}
	return i
}

func tokenize(s string) []string {
	var toks []string
	cur := strings.Builder{}
	flush := func() {
		if cur.Len() > 0 {
			toks = append(toks, cur.String())
			cur.Reset()
		}
	}
	for _, ch := range s {
		switch ch {
		case '(', ')':
			flush()
			toks = append(toks, string(ch))
		case ' ', '\n', '\t', '\r':
			flush()
		default:
			cur.WriteRune(ch)
		}
	}
	flush()
	return toks
}

// DumpStandalone writes a self-contained SMT-LIB2 script deciding (and asserts...).
func (ts *TermStore) DumpStandalone(w io.Writer, asserts []*Term) {
	seen := map[*Term]bool{}
	arrs := map[string]bool{}
	var order []*Term
	var visit func(t *Term)
	visit = func(t *Term) {
		if t == nil || seen[t] || t.op == OpConst {
			return
		}
		seen[t] = true
		visit(t.a)
		visit(t.b)
		visit(t.c)
		order = append(order, t)
	}
	for _, a := range asserts {
		visit(a)
	}
	fmt.Fprintln(w, "(set-logic ALL)")
	for _, t := range order {
		switch t.op {
		case OpVar:
			fmt.Fprintf(w, "(declare-const %s %s)\n", t.name, sortOf(t.w))
		case OpSelect:
			if !arrs[t.name] {
				arrs[t.name] = true
				fmt.Fprintf(w, "(declare-const %s (Array %s %s))\n", t.name, sortOf(uint8(t.val)), sortOf(t.w))
			}
			fmt.Fprintf(w, "(define-fun t%d () %s %s)\n", t.id, sortOf(t.w), t.body())
		case OpApply:
			if !arrs[t.name] {
				arrs[t.name] = true
				fmt.Fprintf(w, "(declare-fun %s (%s) %s)\n", t.name, sortOf(t.a.w), sortOf(t.w))
			}
			fmt.Fprintf(w, "(define-fun t%d () %s %s)\n", t.id, sortOf(t.w), t.body())
		default:
			fmt.Fprintf(w, "(define-fun t%d () %s %s)\n", t.id, sortOf(t.w), t.body())
		}
	}
	for _, a := range asserts {
		fmt.Fprintf(w, "(assert %s)\n", a.ref())
	}
	fmt.Fprintln(w, "(check-sat)")
}

// DumpStandaloneModel writes a script deciding the conjunction of asserts followed by one
// get-value request covering all variables and all array-read / function-application terms
// (argument and value). It returns those terms in the order requested.
func (ts *TermStore) DumpStandaloneModel(w io.Writer, asserts []*Term) (vars []*Term, apps []*Term) {
	seen := map[*Term]bool{}
	decl := map[string]bool{}
	var order []*Term
	var stack []*Term
	for _, a := range asserts {
		stack = append(stack, a)
	}
	// iterative post-order
	type fr struct {
		t *Term
		k int
	}
	var st []fr
	for _, a := range asserts {
		st = append(st, fr{a, 0})
		for len(st) > 0 {
			f := &st[len(st)-1]
			x := f.t
			if x == nil || seen[x] || x.op == OpConst {
				st = st[:len(st)-1]
				continue
			}
			var child *Term
			switch f.k {
			case 0:
				child = x.a
			case 1:
				child = x.b
			case 2:
				child = x.c
			}
			if f.k < 3 {
				f.k++
				if child != nil && !seen[child] && child.op != OpConst {
					st = append(st, fr{child, 0})
				}
				continue
			}
			seen[x] = true
			order = append(order, x)
			st = st[:len(st)-1]
		}
	}
	fmt.Fprintln(w, "(set-option :model.completion true)")
	for _, t := range order {
		switch t.op {
		case OpVar:
			fmt.Fprintf(w, "(declare-const %s %s)\n", t.name, sortOf(t.w))
			vars = append(vars, t)
		case OpSelect:
			if !decl[t.name] {
				decl[t.name] = true
				fmt.Fprintf(w, "(declare-const %s (Array %s %s))\n", t.name, sortOf(uint8(t.val)), sortOf(t.w))
			}
			fmt.Fprintf(w, "(define-fun t%d () %s %s)\n", t.id, sortOf(t.w), t.body())
			apps = append(apps, t)
		case OpApply:
			if !decl[t.name] {
				decl[t.name] = true
				fmt.Fprintf(w, "(declare-fun %s (%s) %s)\n", t.name, sortOf(t.a.w), sortOf(t.w))
			}
			fmt.Fprintf(w, "(define-fun t%d () %s %s)\n", t.id, sortOf(t.w), t.body())
			apps = append(apps, t)
		default:
			fmt.Fprintf(w, "(define-fun t%d () %s %s)\n", t.id, sortOf(t.w), t.body())
		}
	}
	for _, a := range asserts {
		fmt.Fprintf(w, "(assert %s)\n", a.ref())
	}
	fmt.Fprintln(w, "(check-sat)")
	if len(vars)+len(apps) > 0 {
		fmt.Fprint(w, "(get-value (")
		for _, v := range vars {
			fmt.Fprintf(w, "%s ", v.name)
		}
		for _, a := range apps {
			fmt.Fprintf(w, "%s %s ", a.a.ref(), a.ref())
		}
		fmt.Fprintln(w, "))")
	}
	return
}
