package main

func init() {
	checkDefs["C19"] = &CheckDef{
		Property: "C19",
		Jobs: func(tier string) []*Job {
			tags := "verif,noasm"
			jobs := []*Job{
				mkJob("header", "H_C19_header", "", tags, P()),
				mkJob("magic", "H_C19_magic", "", tags, P()),
			}
			// Size() across Reset: a Reader that has read a frame with a content size and is Reset
			// onto a frame without one (and vice versa) reports the new frame's field
			for _, sizeopt := range []int{0, 1} {
				jobs = append(jobs, fmk("H_life_r", P("L", 4, "trail", 0, "n", 3, "period", 0, "bs", 4, "bc", 0, "cc", 1, "sizeopt", sizeopt, "level", 0, "legacy", 0, "deliv", 0, "k", 0)))
			}
			return jobs
		},
		Bounds: func(tier string) []string {
			return []string{
				"one symbolic header: FLG and BD bytes (2^16), eight content-size bytes (2^64), checksum byte (2^8); content-size layout present/absent follows the FLG bit inside the run: the complete space, no enumeration",
				"first word: 32 symbolic bits, all values outside the 18 magic values",
				"ValidFrameHeader on the header bytes; Reader.Read and Reader.Size on header + end mark (+ content checksum of the empty content)",
				"Size() under every 4-call sequence of Read/WriteTo/Size/Reset, where Reset alternates between a frame with and a frame without the content-size field (symbolic 64-bit value)",
			}
		},
		Outside: []string{"truncated headers (C06)", "Reader concurrency > 1"},
		Assumptions: []string{
			"accept is the property's own definition (checksum byte and block-size code); version/reserved/dictionary bits are not judged",
			"fmt.Errorf is modelled as an error wrapping its %w operand; message text is not modelled",
			"reference XXH32 from harness/ref",
		},
	}
}
