package main

// Goroutines, channels, mutexes and a happens-before race detector for gosym.
//
// Every simulated goroutine runs on its own Go goroutine, but exactly one of them executes at any
// time (baton passing), so a path stays a deterministic function of the decision vector.
// The schedule is a vector of symbolic inputs: the default scheduler is non-preemptive round robin
// (a goroutine runs until it blocks or ends, then the next runnable one in creation order after it),
// and at every scheduling point (before go, send, receive, close, Lock, Unlock, and whenever the
// running goroutine blocks or ends) a symbolic "delay" d_k says how many goroutines of that order are
// skipped. The delays of a path sum to at most Job.Delays (delay-bounded scheduling, Emmi, Qadeer,
// Rakamaric 2011); the solver enumerates their feasible values like any other input.

import (
	"fmt"
	"go/types"
	"sort"
	"strings"
	"sync"

	"golang.org/x/tools/go/ssa"
)

type chanMsg struct {
	v  Value
	vc []uint32
}

type ChanVal struct {
	id      int
	cap     int
	buf     []chanMsg
	closed  bool
	closeVC []uint32
	recvVC  []uint32
	sendq   []*simG
	recvq   []*simG
	site    string
}

type mutexState struct {
	held  bool
	vc    []uint32
	waitq []*simG
}

type simG struct {
	id       int
	name     string
	wake     chan bool
	done     bool
	parked   bool
	settling bool
	why      string
	vc       []uint32
	curFrame *Frame
	recvVal  Value
	recvOK   bool
	sendVal  Value
	wakeErr  string
}

type killedG struct{}

type concState struct {
	gs       []*simG
	cur      *simG
	budget   int
	nsched   int
	abortVal interface{}
	aborted  bool
	wg       sync.WaitGroup
	nchan    int
	mutexes  map[string]*mutexState
	wgs      map[string]*wgState
	races    map[string]bool
	maxLive  int
}

type accRec struct {
	lo, hi int
	g      int32
	clk    uint32
	write  bool
	coarse bool
	where  string
}

func (ex *Exec) concInit() *concState {
	if ex.conc != nil {
		return ex.conc
	}
	cs := &concState{budget: ex.job.Delays, mutexes: map[string]*mutexState{}, races: map[string]bool{}}
	g0 := &simG{id: 0, name: "main", wake: make(chan bool), vc: []uint32{1}}
	cs.gs = []*simG{g0}
	cs.cur = g0
	ex.conc = cs
	return cs
}

func vcJoin(a, b []uint32) []uint32 {
	if len(b) > len(a) {
		n := make([]uint32, len(b))
		copy(n, a)
		a = n
	}
	for i, x := range b {
		if x > a[i] {
			a[i] = x
		}
	}
	return a
}

func vcCopy(a []uint32) []uint32 {
	n := make([]uint32, len(a))
	copy(n, a)
	return n
}

func (g *simG) tick() {
	for len(g.vc) <= g.id {
		g.vc = append(g.vc, 0)
	}
	g.vc[g.id]++
}

func (g *simG) clock() uint32 {
	if g.id < len(g.vc) {
		return g.vc[g.id]
	}
	return 0
}

func (g *simG) desc() string {
	st := "runnable"
	switch {
	case g.done:
		st = "done"
	case g.parked:
		st = "blocked: " + g.why
	case g.settling:
		st = "settling"
	}
	return fmt.Sprintf("g%d(%s) %s", g.id, g.name, st)
}

func (cs *concState) describe() string {
	var s []string
	for _, g := range cs.gs {
		if !g.done {
			s = append(s, g.desc())
		}
	}
	return strings.Join(s, "; ")
}

// ---------- scheduling ----------

// candidates returns the goroutines that may run next, in default order.
func (cs *concState) candidates() []*simG {
	var l []*simG
	cur := cs.cur
	if !cur.done && !cur.parked && !cur.settling {
		l = append(l, cur)
	}
	n := len(cs.gs)
	for k := 1; k < n; k++ {
		g := cs.gs[(cur.id+k)%n]
		if g.done || g.parked || g.settling {
			continue
		}
		l = append(l, g)
	}
	if len(l) == 0 {
		for _, g := range cs.gs {
			if g.settling && !g.done {
				l = append(l, g)
			}
		}
	}
	return l
}

// choose picks the next goroutine to run; the number of skipped candidates is a symbolic input.
func (ex *Exec) choose(what string) *simG {
	cs := ex.conc
	l := cs.candidates()
	if len(l) == 0 {
		return nil
	}
	max := len(l) - 1
	if max > cs.budget {
		max = cs.budget
	}
	d := 0
	if max > 0 {
		cs.nsched++
		v := ex.newInput(fmt.Sprintf("sched_%d", cs.nsched), 64, "sched")
		ex.assume(ex.ts.Ule(v, ex.ts.Const(64, uint64(max))))
		d = int(ex.concretize(v))
		if d > max {
			// concrete mode with a tape from another schedule shape
			d = max
		}
	}
	cs.budget -= d
	return l[d]
}

// switchTo hands the baton to next and waits until this goroutine is resumed.
func (ex *Exec) switchTo(next *simG) {
	cs := ex.conc
	me := cs.cur
	if next == me {
		return
	}
	me.curFrame = ex.curFrame
	cs.cur = next
	next.wake <- true
	ok := <-me.wake
	if !ok {
		panic(killedG{})
	}
	cs.cur = me
	ex.curFrame = me.curFrame
	if cs.abortVal != nil && me.id == 0 {
		v := cs.abortVal
		cs.abortVal = nil
		panic(v)
	}
}

// schedPoint is called before every synchronisation operation.
func (ex *Exec) schedPoint(what string) {
	cs := ex.conc
	if cs == nil || len(cs.gs) < 2 {
		return
	}
	next := ex.choose(what)
	if next != nil {
		ex.switchTo(next)
	}
}

// park blocks the current goroutine until another one clears its parked flag and schedules it.
func (ex *Exec) park(why string) {
	cs := ex.concInit()
	me := cs.cur
	me.parked = true
	me.why = why
	for me.parked {
		next := ex.choose("block")
		if next == nil {
			ex.concFail("conc-deadlock", "all goroutines are blocked: "+cs.describe())
		}
		ex.switchTo(next)
	}
	if me.wakeErr != "" {
		e := me.wakeErr
		me.wakeErr = ""
		ex.goPanic(e)
	}
}

// concFail records a failed implicit assertion and ends the path (from any simulated goroutine).
func (ex *Exec) concFail(id, detail string) {
	ex.event(id, detail)
	if ex.job.Filter != nil && !ex.job.Filter(id) {
		// the obligation belongs to another property's check of the same harness (C08): keep
		// going where that is possible so that this property's own assertions are still reached
		if id == "conc-deadlock" {
			ex.abort("dead", id+": "+detail)
		}
		return
	}
	ex.recordImplicitFailure(id, detail)
	ex.abort("assert", id+": "+detail)
}

// ---------- go statement ----------

func (ex *Exec) goStmt(fr *Frame, c *ssa.CallCommon) {
	cs := ex.concInit()
	fnv, args := ex.prepareCall(fr, c)
	cl, _ := fnv.(*Closure)
	if cl == nil {
		ex.goPanic("go of nil func value")
	}
	ex.schedPoint("go")
	parent := cs.cur
	g := &simG{id: len(cs.gs), wake: make(chan bool)}
	if cl.fn != nil {
		g.name = cl.fn.String()
	} else {
		g.name = cl.bltn
	}
	g.vc = vcCopy(parent.vc)
	g.tick()
	parent.tick()
	cs.gs = append(cs.gs, g)
	live := 0
	for _, x := range cs.gs {
		if !x.done {
			live++
		}
	}
	if live > cs.maxLive {
		cs.maxLive = live
	}
	if len(cs.gs) > 64 {
		panic(unsupported("more than 64 goroutines on one path"))
	}
	cs.wg.Add(1)
	go func() {
		defer cs.wg.Done()
		ok := <-g.wake
		if !ok {
			return
		}
		finished := false
		defer func() {
			if finished {
				return
			}
			r := recover()
			if _, k := r.(killedG); k {
				return
			}
			// a path-terminating event inside this goroutine: hand it to the main goroutine
			g.done = true
			cs.abortVal = r
			cs.cur = cs.gs[0]
			cs.gs[0].wake <- true
		}()
		cs.cur = g
		ex.curFrame = nil
		if cl.bltn != "" {
			ex.callBuiltin(nil, cl.bltn, args, nil, nil)
		} else {
			ex.callFunction(nil, cl.fn, args, cl.env, nil)
		}
		g.done = true
		g.tick()
		next := ex.choose("exit")
		if next == nil {
			// everyone else is blocked for good
			ex.concFail("conc-deadlock", "all goroutines are blocked: "+cs.describe())
		}
		finished = true
		cs.cur = next
		next.wake <- true
	}()
}

// concEnd kills the goroutines still alive at the end of a path.
func (ex *Exec) concEnd() {
	cs := ex.conc
	if cs == nil {
		return
	}
	for _, g := range cs.gs[1:] {
		if !g.done {
			g.done = true
			select {
			case g.wake <- false:
			default:
				// the goroutine is not waiting on its baton (it raised the abort itself)
				go func(g *simG) {
					defer func() { recover() }()
					g.wake <- false
				}(g)
			}
		}
	}
	cs.wg.Wait()
}

// ---------- channels ----------

func (ex *Exec) makeChan(n int, site string) *ChanVal {
	cs := ex.concInit()
	cs.nchan++
	return &ChanVal{id: cs.nchan, cap: n, site: site}
}

func (ex *Exec) chanSend(ch *ChanVal, v Value) {
	cs := ex.concInit()
	ex.schedPoint("send")
	g := cs.cur
	if ch == nil {
		ex.park("send on nil channel")
		panic("internal: woke from nil channel send")
	}
	if ch.closed {
		ex.goPanic("send on closed channel")
	}
	if len(ch.recvq) > 0 {
		r := ch.recvq[0]
		ch.recvq = ch.recvq[1:]
		old := vcCopy(r.vc)
		r.vc = vcJoin(r.vc, g.vc)
		if ch.cap == 0 {
			g.vc = vcJoin(g.vc, old)
		}
		r.recvVal, r.recvOK = v, true
		r.parked = false
		g.tick()
		r.tick()
		return
	}
	if len(ch.buf) < ch.cap {
		ch.buf = append(ch.buf, chanMsg{v, vcCopy(g.vc)})
		g.vc = vcJoin(g.vc, ch.recvVC)
		g.tick()
		return
	}
	g.sendVal = v
	ch.sendq = append(ch.sendq, g)
	ex.park(fmt.Sprintf("send on chan#%d (%s)", ch.id, ch.site))
}

func (ex *Exec) chanRecv(ch *ChanVal, zero Value) (Value, bool) {
	cs := ex.concInit()
	ex.schedPoint("recv")
	g := cs.cur
	if ch == nil {
		ex.park("receive from nil channel")
		panic("internal: woke from nil channel receive")
	}
	if len(ch.buf) > 0 {
		m := ch.buf[0]
		ch.buf = ch.buf[1:]
		g.vc = vcJoin(g.vc, m.vc)
		ch.recvVC = vcJoin(ch.recvVC, g.vc)
		if len(ch.sendq) > 0 {
			s := ch.sendq[0]
			ch.sendq = ch.sendq[1:]
			ch.buf = append(ch.buf, chanMsg{s.sendVal, vcCopy(s.vc)})
			s.vc = vcJoin(s.vc, ch.recvVC)
			s.parked = false
			s.tick()
		}
		g.tick()
		return m.v, true
	}
	if len(ch.sendq) > 0 {
		s := ch.sendq[0]
		ch.sendq = ch.sendq[1:]
		old := vcCopy(s.vc)
		s.vc = vcJoin(s.vc, g.vc)
		g.vc = vcJoin(g.vc, old)
		s.parked = false
		s.tick()
		g.tick()
		return s.sendVal, true
	}
	if ch.closed {
		g.vc = vcJoin(g.vc, ch.closeVC)
		return zero, false
	}
	ch.recvq = append(ch.recvq, g)
	ex.park(fmt.Sprintf("receive on chan#%d (%s)", ch.id, ch.site))
	if !g.recvOK {
		return zero, false
	}
	return g.recvVal, true
}

func (ex *Exec) chanClose(ch *ChanVal) {
	cs := ex.concInit()
	ex.schedPoint("close")
	g := cs.cur
	if ch == nil {
		ex.goPanic("close of nil channel")
	}
	if ch.closed {
		ex.goPanic("close of closed channel")
	}
	ch.closed = true
	ch.closeVC = vcCopy(g.vc)
	g.tick()
	for _, r := range ch.recvq {
		r.recvVal, r.recvOK = nil, false
		r.vc = vcJoin(r.vc, ch.closeVC)
		r.parked = false
	}
	ch.recvq = nil
	for _, s := range ch.sendq {
		s.wakeErr = "send on closed channel"
		s.parked = false
	}
	ch.sendq = nil
}

// ---------- mutexes ----------

func (ex *Exec) mutexOf(p Pointer) *mutexState {
	cs := ex.concInit()
	k := fmt.Sprintf("%d:%d", p.obj.id, p.off.val)
	m := cs.mutexes[k]
	if m == nil {
		m = &mutexState{}
		cs.mutexes[k] = m
	}
	return m
}

func (ex *Exec) mutexLock(p Pointer) {
	if p.obj == nil {
		ex.goPanic("nil pointer dereference (Mutex.Lock)")
	}
	m := ex.mutexOf(p)
	ex.schedPoint("lock")
	g := ex.conc.cur
	if !m.held {
		m.held = true
		g.vc = vcJoin(g.vc, m.vc)
		return
	}
	m.waitq = append(m.waitq, g)
	ex.park("Mutex.Lock on " + p.obj.name)
}

func (ex *Exec) mutexUnlock(p Pointer) {
	if p.obj == nil {
		ex.goPanic("nil pointer dereference (Mutex.Unlock)")
	}
	m := ex.mutexOf(p)
	ex.schedPoint("unlock")
	g := ex.conc.cur
	if !m.held {
		ex.goPanic("sync: unlock of unlocked mutex")
	}
	m.vc = vcCopy(g.vc)
	g.tick()
	if len(m.waitq) > 0 {
		w := m.waitq[0]
		m.waitq = m.waitq[1:]
		w.vc = vcJoin(w.vc, m.vc)
		w.parked = false
		return
	}
	m.held = false
}

// ---------- wait groups ----------

type wgState struct {
	n     int
	vc    []uint32
	waitq []*simG
}

func (ex *Exec) wgOf(p Pointer) *wgState {
	cs := ex.concInit()
	if cs.wgs == nil {
		cs.wgs = map[string]*wgState{}
	}
	k := fmt.Sprintf("%d:%d", p.obj.id, p.off.val)
	w := cs.wgs[k]
	if w == nil {
		w = &wgState{}
		cs.wgs[k] = w
	}
	return w
}

func (ex *Exec) wgAdd(p Pointer, d int) {
	if p.obj == nil {
		ex.goPanic("nil pointer dereference (WaitGroup)")
	}
	w := ex.wgOf(p)
	if d < 0 {
		ex.schedPoint("wg.Done")
	}
	g := ex.conc.cur
	w.n += d
	if w.n < 0 {
		ex.goPanic("sync: negative WaitGroup counter")
	}
	if d < 0 {
		w.vc = vcJoin(w.vc, g.vc)
		g.tick()
		if w.n == 0 {
			for _, x := range w.waitq {
				x.vc = vcJoin(x.vc, w.vc)
				x.parked = false
			}
			w.waitq = nil
		}
	}
}

func (ex *Exec) wgWait(p Pointer) {
	if p.obj == nil {
		ex.goPanic("nil pointer dereference (WaitGroup)")
	}
	w := ex.wgOf(p)
	ex.schedPoint("wg.Wait")
	g := ex.conc.cur
	if w.n == 0 {
		g.vc = vcJoin(g.vc, w.vc)
		return
	}
	w.waitq = append(w.waitq, g)
	ex.park("WaitGroup.Wait on " + p.obj.name)
}

// ---------- pools: Put happens before the Get that returns the value ----------

func (ex *Exec) concPoolPut(k string) {
	if ex.poolVCs == nil {
		ex.poolVCs = map[string][][]uint32{}
	}
	var vc []uint32
	if cs := ex.conc; cs != nil {
		vc = vcCopy(cs.cur.vc)
		cs.cur.tick()
	}
	ex.poolVCs[k] = append(ex.poolVCs[k], vc)
}

func (ex *Exec) concPoolGet(k string) {
	st := ex.poolVCs[k]
	if len(st) == 0 {
		return
	}
	vc := st[len(st)-1]
	ex.poolVCs[k] = st[:len(st)-1]
	if cs := ex.conc; cs != nil && vc != nil {
		cs.cur.vc = vcJoin(cs.cur.vc, vc)
	}
}

// ---------- settle / goroutine census ----------

// live returns the number of goroutines other than main that have not finished.
func (ex *Exec) liveGoroutines() int {
	cs := ex.conc
	if cs == nil {
		return 0
	}
	n := 0
	for _, g := range cs.gs[1:] {
		if !g.done {
			n++
		}
	}
	return n
}

// settle lets every other goroutine run until each has ended or is blocked for good, and returns
// how many remain (blocked forever).
func (ex *Exec) settle() int {
	cs := ex.conc
	if cs == nil {
		return 0
	}
	me := cs.cur
	if me.id != 0 {
		panic(unsupported("vfSettle outside the main goroutine"))
	}
	for {
		other := false
		for _, g := range cs.gs[1:] {
			if !g.done && !g.parked {
				other = true
			}
		}
		if !other {
			break
		}
		me.settling = true
		next := ex.choose("settle")
		if next == nil || next == me {
			me.settling = false
			break
		}
		ex.switchTo(next)
		me.settling = false
	}
	// everything that happened in the goroutines that ended is ordered before what main does next
	// only if main synchronised with them; settle itself adds no happens-before edge.
	return ex.liveGoroutines()
}

// ---------- happens-before race detection ----------

const maxAccRecs = 512

func (ex *Exec) raceAccess(o *Object, lo, hi int, write bool) {
	cs := ex.conc
	if cs == nil || len(cs.gs) < 2 || o.norace || ex.inInit {
		return
	}
	g := cs.cur
	gid := int32(g.id)
	clk := g.clock()
	if n := len(o.acc); n > 0 {
		r := &o.acc[n-1]
		if r.g == gid && r.clk == clk && r.write == write && !o.multi && lo >= r.lo && lo <= r.hi {
			if hi > r.hi {
				r.hi = hi
			}
			return
		}
	}
	if o.multi || (len(o.acc) > 0 && o.acc[0].g != gid) {
		for i := range o.acc {
			r := &o.acc[i]
			if r.g == gid || (!r.write && !write) || r.hi <= lo || r.lo >= hi {
				continue
			}
			o.multi = true
			var seen uint32
			if int(r.g) < len(g.vc) {
				seen = g.vc[r.g]
			}
			if r.clk > seen {
				ex.reportRace(o, r, lo, hi, write)
			}
		}
		if !o.multi {
			for i := range o.acc {
				if o.acc[i].g != gid {
					o.multi = true
					break
				}
			}
		}
	}
	// record: merge with a record of the same goroutine and kind, drop the ones it supersedes
	k := 0
	merged := false
	for i := range o.acc {
		r := o.acc[i]
		if r.g == gid && r.write == write && !r.coarse {
			if r.lo >= lo && r.hi <= hi {
				continue // superseded
			}
			if r.clk == clk && !merged && lo <= r.hi && hi >= r.lo {
				if lo < r.lo {
					r.lo = lo
				}
				if hi > r.hi {
					r.hi = hi
				}
				merged = true
			}
		}
		o.acc[k] = r
		k++
	}
	o.acc = o.acc[:k]
	if !merged {
		o.acc = append(o.acc, accRec{lo: lo, hi: hi, g: gid, clk: clk, write: write, coarse: ex.raceCoarse, where: ex.whereShort()})
	}
	if len(o.acc) > maxAccRecs {
		ex.coarsen(o, gid)
	}
}

func (ex *Exec) coarsen(o *Object, gid int32) {
	// collapse the records of the goroutine with the most entries into whole-object records
	cnt := map[int32]int{}
	for _, r := range o.acc {
		cnt[r.g]++
	}
	best := gid
	for g, c := range cnt {
		if c > cnt[best] {
			best = g
		}
	}
	var rd, wr *accRec
	k := 0
	for i := range o.acc {
		r := o.acc[i]
		if r.g != best {
			o.acc[k] = r
			k++
			continue
		}
		t := &rd
		if r.write {
			t = &wr
		}
		if *t == nil {
			c := r
			c.coarse = true
			c.lo, c.hi = 0, o.ncells
			*t = &c
		} else if r.clk > (*t).clk {
			(*t).clk = r.clk
			(*t).where = r.where
		}
	}
	o.acc = o.acc[:k]
	if rd != nil {
		o.acc = append(o.acc, *rd)
	}
	if wr != nil {
		o.acc = append(o.acc, *wr)
	}
}

func (ex *Exec) whereShort() string {
	var parts []string
	for f := ex.curFrame; f != nil && len(parts) < 3; f = f.caller {
		parts = append(parts, f.fn.String())
	}
	return strings.Join(parts, " < ")
}

func (ex *Exec) reportRace(o *Object, r *accRec, lo, hi int, write bool) {
	cs := ex.conc
	kind := func(w bool) string {
		if w {
			return "write"
		}
		return "read"
	}
	if r.coarse || ex.raceCoarse {
		ex.path.Inconclusive = append(ex.path.Inconclusive, "race detector lost precision on object "+o.name)
		return
	}
	key := fmt.Sprintf("%s|%s|%s", o.name, r.where, ex.whereShort())
	if cs.races[key] {
		return
	}
	cs.races[key] = true
	detail := fmt.Sprintf("%s of %s[%d:%d) by g%d(%s) in %s is unordered with the earlier %s [%d:%d) by g%d(%s) in %s",
		kind(write), o.name, lo, hi, cs.cur.id, cs.cur.name, ex.whereShort(), kind(r.write), r.lo, r.hi, r.g, cs.gs[r.g].name, r.where)
	ex.concFail("conc-race", detail)
}

// used by reports
func (cs *concState) summary() string {
	var names []string
	for _, g := range cs.gs {
		names = append(names, g.name)
	}
	sort.Strings(names)
	return strings.Join(names, ",")
}

var _ = types.Typ

// useAfterPut: an access to a buffer that is in a pool. With goroutines running it is a failed
// obligation of C08 (the buffer may already belong to someone else); otherwise it is counted.
func (ex *Exec) useAfterPut(detail string) {
	ex.event("use-after-put", detail)
	if ex.conc != nil && len(ex.conc.gs) > 1 {
		ex.concFail("conc-use-after-release", detail+" in "+ex.whereShort())
	}
}
