package main

import (
	"fmt"
	"go/types"
	"sort"
)

const denseLimit = 1 << 14

type symWrite struct {
	idx *Term // cell index, 64-bit
	val *Term
	seq int32
}

type fill struct {
	lo, hi int
	seq    int32
	arr    *Arr // nil => zero; else select(arr, i-lo) (index width arr.iw)
}

type Object struct {
	id       int
	name     string
	layout   *Layout // element layout
	count    int
	ncells   int
	dense    []Value
	dseq     []int32
	sparse   map[int]Value
	sseq     map[int]int32
	fills    []fill
	symw     []symWrite
	released bool
	readonly bool
	acc      []accRec // concurrent mode: access records for the happens-before race check
	multi    bool
	norace   bool
}

func (ex *Exec) newObject(elem types.Type, count int, name string) *Object {
	l := layoutOf(elem)
	o := &Object{id: ex.nextObj, name: name, layout: l, count: count, ncells: l.size * count}
	ex.nextObj++
	if o.ncells <= denseLimit {
		o.dense = make([]Value, o.ncells)
		o.dseq = make([]int32, o.ncells)
	} else {
		o.sparse = map[int]Value{}
		o.sseq = map[int]int32{}
	}
	ex.nObjects++
	return o
}

func (o *Object) cellType(i int) types.Type {
	if o.layout.size == 0 {
		return nil
	}
	return o.layout.scalarTypeAt(i % o.layout.size)
}

func (ex *Exec) nextSeq() int32 {
	ex.seq++
	return ex.seq
}

// baseAt returns the explicit or default value of cell i and its sequence number,
// ignoring symbolic-index writes.
func (ex *Exec) baseAt(o *Object, i int) (Value, int32) {
	if o.dense != nil {
		if v := o.dense[i]; v != nil {
			return v, o.dseq[i]
		}
	} else if v, ok := o.sparse[i]; ok {
		return v, o.sseq[i]
	}
	for k := len(o.fills) - 1; k >= 0; k-- {
		f := &o.fills[k]
		if i >= f.lo && i < f.hi {
			if f.arr == nil {
				return ex.zeroValue(o.cellType(i)), f.seq
			}
			return ex.ts.Select(*f.arr, ex.ts.Const(f.arr.iw, uint64(i-f.lo))), f.seq
		}
	}
	return ex.zeroValue(o.cellType(i)), 0
}

func (ex *Exec) readCell(o *Object, i int) Value {
	if i < 0 || i >= o.ncells {
		panic(fmt.Sprintf("internal: readCell out of range obj%d(%s) %d/%d", o.id, o.name, i, o.ncells))
	}
	if ex.conc != nil && ex.raceOff == 0 {
		ex.raceAccess(o, i, i+1, false)
	}
	v, seq := ex.baseAt(o, i)
	if len(ex.ts.subst) > 0 {
		if t, ok := v.(*Term); ok && t.op != OpConst {
			if c, ok := ex.ts.subst[t]; ok {
				v = c
			}
		}
	}
	if len(o.symw) == 0 {
		return v
	}
	var ci *Term
	for k := range o.symw {
		w := &o.symw[k]
		if w.seq <= seq {
			continue
		}
		if ci == nil {
			ci = ex.ts.Const(64, uint64(i))
		}
		c := ex.ts.Eq(w.idx, ci)
		if c.IsFalse() {
			continue
		}
		tv, ok := v.(*Term)
		if !ok {
			panic(unsupported("symbolic-index write overlapping non-integer cell"))
		}
		if tv.w != w.val.w {
			// different cell kinds cannot alias (typed memory): skip
			continue
		}
		v = ex.ts.Ite(c, w.val, tv)
	}
	return v
}

func (ex *Exec) writeCell(o *Object, i int, v Value) {
	if i < 0 || i >= o.ncells {
		panic(fmt.Sprintf("internal: writeCell out of range obj%d(%s) %d/%d", o.id, o.name, i, o.ncells))
	}
	if o.readonly {
		panic(unsupported("write to read-only object " + o.name))
	}
	if ex.conc != nil && ex.raceOff == 0 {
		ex.raceAccess(o, i, i+1, true)
	}
	s := ex.nextSeq()
	if o.dense != nil {
		o.dense[i] = v
		o.dseq[i] = s
	} else {
		o.sparse[i] = v
		o.sseq[i] = s
	}
}

func (ex *Exec) fillRange(o *Object, lo, hi int, arr *Arr) {
	if o.dense != nil && arr == nil && hi-lo <= 64 {
		for i := lo; i < hi; i++ {
			ex.writeCell(o, i, ex.zeroValue(o.cellType(i)))
		}
		return
	}
	if ex.conc != nil && ex.raceOff == 0 {
		ex.raceAccess(o, lo, hi, true)
	}
	s := ex.nextSeq()
	if o.dense != nil {
		for i := lo; i < hi; i++ {
			o.dense[i] = nil
		}
	} else {
		if hi-lo >= o.ncells {
			o.sparse = map[int]Value{}
			o.sseq = map[int]int32{}
		} else {
			for k := range o.sparse {
				if k >= lo && k < hi {
					delete(o.sparse, k)
					delete(o.sseq, k)
				}
			}
		}
	}
	// drop fills fully covered
	nf := o.fills[:0]
	for _, f := range o.fills {
		if !(f.lo >= lo && f.hi <= hi) {
			nf = append(nf, f)
		}
	}
	o.fills = append(nf, fill{lo, hi, s, arr})
	// drop symbolic writes if the whole object is refilled
	if lo == 0 && hi >= o.ncells {
		o.symw = nil
	}
}

// symRead reads a cell at symbolic index idx known to lie in [lo,hi) with stride st (idx ≡ lo mod st).
func (ex *Exec) symRead(o *Object, idx *Term, lo, hi, st int) *Term {
	if lo < 0 {
		lo = 0
	}
	if hi > o.ncells || hi <= 0 {
		hi = o.ncells
	}
	if idx.umax < uint64(hi) {
		hi = int(idx.umax) + 1
	}
	if st <= 0 {
		st = 1
	}
	ex.stats.symReads++
	if ex.conc != nil && ex.raceOff == 0 {
		ex.raceCoarse = true
		ex.raceAccess(o, lo, hi, false)
		ex.raceCoarse = false
	}
	type ev struct {
		seq  int32
		kind int // 0 cell 1 fill 2 symw
		i    int
		f    *fill
		w    *symWrite
		v    Value
	}
	var evs []ev
	if o.dense != nil {
		for i := lo; i < hi; i += st {
			if v := o.dense[i]; v != nil {
				evs = append(evs, ev{seq: o.dseq[i], kind: 0, i: i, v: v})
			}
		}
	} else {
		if len(o.sparse) > 1<<17 {
			panic(unsupported("symbolic read over very large explicit object"))
		}
		for i, v := range o.sparse {
			if i >= lo && i < hi && (i-lo)%st == 0 {
				evs = append(evs, ev{seq: o.sseq[i], kind: 0, i: i, v: v})
			}
		}
	}
	for k := range o.fills {
		f := &o.fills[k]
		if f.hi > lo && f.lo < hi {
			evs = append(evs, ev{seq: f.seq, kind: 1, f: f})
		}
	}
	for k := range o.symw {
		w := &o.symw[k]
		evs = append(evs, ev{seq: w.seq, kind: 2, w: w})
	}
	sort.Slice(evs, func(a, b int) bool { return evs[a].seq < evs[b].seq })
	ct := o.cellType(lo)
	zw, _, ok := intWidth(ct)
	if !ok {
		panic(unsupported("symbolic-index read of non-integer cell"))
	}
	var acc *Term = ex.ts.Const(zw, 0)
	ts := ex.ts
	for _, e := range evs {
		switch e.kind {
		case 0:
			tv, ok := e.v.(*Term)
			if !ok {
				panic(unsupported("symbolic-index read over non-integer cell"))
			}
			if tv.w != zw {
				continue
			}
			acc = ts.Ite(ts.Eq(idx, ts.Const(64, uint64(e.i))), tv, acc)
		case 1:
			f := e.f
			var in *Term
			if f.lo <= lo && f.hi >= hi {
				in = ts.tTrue
			} else {
				in = ts.BAnd(ts.Ule(ts.Const(64, uint64(f.lo)), idx), ts.Ult(idx, ts.Const(64, uint64(f.hi))))
			}
			var fv *Term
			if f.arr == nil {
				fv = ts.Const(zw, 0)
			} else {
				if f.arr.ew != zw {
					continue
				}
				rel := ts.Sub(idx, ts.Const(64, uint64(f.lo)))
				fv = ts.Select(*f.arr, ts.Resize(rel, f.arr.iw, false))
			}
			acc = ts.Ite(in, fv, acc)
		case 2:
			if e.w.val.w != zw {
				continue
			}
			acc = ts.Ite(ts.Eq(idx, e.w.idx), e.w.val, acc)
		}
	}
	return acc
}

func (ex *Exec) symWriteCell(o *Object, idx *Term, v *Term) {
	if o.readonly {
		panic(unsupported("write to read-only object " + o.name))
	}
	ex.stats.symWrites++
	if ex.conc != nil && ex.raceOff == 0 {
		ex.raceCoarse = true
		ex.raceAccess(o, 0, o.ncells, true)
		ex.raceCoarse = false
	}
	o.symw = append(o.symw, symWrite{idx, v, ex.nextSeq()})
}

// ---------- typed load/store through pointers ----------

func (ex *Exec) loadCellAt(p Pointer) Value {
	if p.off.IsConst() {
		return ex.readCell(p.obj, int(p.off.val))
	}
	// symbolic offsets are kept symbolic only over integer cells; over pointers, slices,
	// interfaces ... the feasible offsets are enumerated (bounded by the object size)
	lo := int(p.lo)
	if lo < 0 || lo >= p.obj.ncells {
		lo = 0
	}
	if _, _, isInt := intWidth(p.obj.cellType(lo)); !isInt {
		return ex.readCell(p.obj, int(ex.concretize(p.off)))
	}
	return ex.symRead(p.obj, p.off, int(p.lo), int(p.hi), int(p.st))
}

func (ex *Exec) load(p Pointer, t types.Type) Value {
	if p.obj == nil {
		ex.goPanic("nil pointer dereference")
	}
	if p.obj.released {
		ex.useAfterPut("load from object released to pool: " + p.obj.name)
	}
	l := layoutOf(t)
	if l.kind == 0 {
		return ex.loadCellAt(p)
	}
	if !p.off.IsConst() {
		panic(unsupported("aggregate load at symbolic offset"))
	}
	return ex.loadAgg(p.obj, int(p.off.val), l)
}

func (ex *Exec) loadAgg(o *Object, off int, l *Layout) Value {
	switch l.kind {
	case 0:
		return ex.readCell(o, off)
	case 1:
		if l.n > 4096 {
			panic(unsupported("load of huge array value"))
		}
		a := &ArrayVal{n: l.n, elems: make([]Value, l.n)}
		for i := 0; i < l.n; i++ {
			a.elems[i] = ex.loadAgg(o, off+i*l.elem.size, l.elem)
		}
		return a
	default:
		s := make(Struct, len(l.fields))
		for i, f := range l.fields {
			s[i] = ex.loadAgg(o, off+l.offs[i], f)
		}
		return s
	}
}

func (ex *Exec) store(p Pointer, t types.Type, v Value) {
	if p.obj == nil {
		ex.goPanic("nil pointer dereference")
	}
	if p.obj.released {
		ex.useAfterPut("store to object released to pool: " + p.obj.name)
	}
	l := layoutOf(t)
	if l.kind == 0 {
		if p.off.IsConst() {
			ex.writeCell(p.obj, int(p.off.val), v)
			return
		}
		tv, ok := v.(*Term)
		if !ok {
			ex.writeCell(p.obj, int(ex.concretize(p.off)), v)
			return
		}
		ex.symWriteCell(p.obj, p.off, tv)
		return
	}
	if !p.off.IsConst() {
		panic(unsupported("aggregate store at symbolic offset"))
	}
	ex.storeAgg(p.obj, int(p.off.val), l, v)
}

func (ex *Exec) storeAgg(o *Object, off int, l *Layout, v Value) {
	switch l.kind {
	case 0:
		ex.writeCell(o, off, v)
	case 1:
		a := v.(*ArrayVal)
		if a.elems == nil {
			// zero array
			ex.fillRange(o, off, off+l.size, nil)
			return
		}
		for i := 0; i < l.n; i++ {
			ex.storeAgg(o, off+i*l.elem.size, l.elem, a.elems[i])
		}
	default:
		s := v.(Struct)
		for i, f := range l.fields {
			ex.storeAgg(o, off+l.offs[i], f, s[i])
		}
	}
}
