package main

import (
	"fmt"
	"go/types"
	"os"
	"os/exec"
	"path/filepath"
	"runtime/debug"
	"sort"
	"strconv"
	"strings"
	"sync"
	"time"

	"golang.org/x/tools/go/packages"
	"golang.org/x/tools/go/ssa"
	"golang.org/x/tools/go/ssa/ssautil"
)

var repoDir = func() string {
	if d := os.Getenv("VERIF_REPO"); d != "" {
		return d
	}
	return "/repo"
}()
const modPath = "github.com/pierrec/lz4/v4"

// ---------- world ----------

type World struct {
	prog          *ssa.Program
	tags          string
	pkgs          map[string]*ssa.Package
	poolType      types.Type
	wrapErrorType types.Type
	asm           *AsmFunc
	asmErr        error
	loadTime      time.Duration
	harnessSrc    map[string]string // virtual path -> real path
}

func (w *World) isHarnessFunc(fn *ssa.Function) bool {
	if fn.Pkg == nil {
		return false
	}
	f := w.prog.Fset.File(fn.Pos())
	if f == nil {
		return false
	}
	return strings.HasPrefix(filepath.Base(f.Name()), "zz_verif")
}

// harnessOverlay maps virtual file names inside /repo to harness sources under /verif/harness.
func harnessOverlay() (map[string]string, error) {
	root := filepath.Join(verifDir(), "harness")
	m := map[string]string{}
	dirs := map[string]string{
		"lz4":       "",
		"lz4block":  "internal/lz4block",
		"lz4stream": "internal/lz4stream",
		"xxh32":     "internal/xxh32",
	}
	for d, rel := range dirs {
		ents, err := os.ReadDir(filepath.Join(root, d))
		if err != nil {
			continue
		}
		for _, e := range ents {
			if strings.HasSuffix(e.Name(), ".go") && !strings.HasSuffix(e.Name(), "_test.go") {
				m[filepath.Join(repoDir, rel, e.Name())] = filepath.Join(root, d, e.Name())
			}
		}
		// shared primitives, instantiated per package
		prims, err := os.ReadFile(filepath.Join(root, "prims.go.tmpl"))
		if err == nil {
			gen := filepath.Join(workDir(), "gen", d)
			os.MkdirAll(gen, 0o755)
			out := filepath.Join(gen, "zz_verif_prims.go")
			src := strings.ReplaceAll(string(prims), "PKGNAME", d)
			if err := os.WriteFile(out, []byte(src), 0o644); err != nil {
				return nil, err
			}
			m[filepath.Join(repoDir, rel, "zz_verif_prims.go")] = out
		}
		refs, _ := filepath.Glob(filepath.Join(root, "ref", "*.go.tmpl"))
		for _, rf := range refs {
			b, err := os.ReadFile(rf)
			if err != nil {
				return nil, err
			}
			gen := filepath.Join(workDir(), "gen", d)
			os.MkdirAll(gen, 0o755)
			base := strings.TrimSuffix(filepath.Base(rf), ".go.tmpl")
			out := filepath.Join(gen, "zz_verif_ref_"+base+".go")
			src := strings.ReplaceAll(string(b), "PKGNAME", d)
			if err := os.WriteFile(out, []byte(src), 0o644); err != nil {
				return nil, err
			}
			m[filepath.Join(repoDir, rel, "zz_verif_ref_"+base+".go")] = out
		}
	}
	return m, nil
}

func verifDir() string {
	if d := os.Getenv("VERIF_DIR"); d != "" {
		return d
	}
	return "/verif"
}

var workDirOnce sync.Once
var workDirPath string

func workDir() string {
	workDirOnce.Do(func() {
		workDirPath = filepath.Join(verifDir(), ".work", fmt.Sprintf("%d", os.Getpid()))
		os.MkdirAll(workDirPath, 0o755)
	})
	return workDirPath
}

func loadWorld(tags string) (*World, error) {
	t0 := time.Now()
	ov, err := harnessOverlay()
	if err != nil {
		return nil, err
	}
	overlay := map[string][]byte{}
	for virt, real := range ov {
		b, err := os.ReadFile(real)
		if err != nil {
			return nil, err
		}
		overlay[virt] = b
	}
	cfg := &packages.Config{
		Mode:       packages.LoadAllSyntax,
		Dir:        repoDir,
		BuildFlags: []string{"-tags=" + tags},
		Overlay:    overlay,
		Env:        append(os.Environ(), "GOFLAGS=-mod=mod", "GOPROXY=off", "GOSUMDB=off", "GOTOOLCHAIN=local"),
	}
	pkgs, err := packages.Load(cfg, ".", "./internal/...")
	if err != nil {
		return nil, err
	}
	var errs []string
	packages.Visit(pkgs, nil, func(p *packages.Package) {
		for _, e := range p.Errors {
			errs = append(errs, e.Error())
		}
	})
	if len(errs) > 0 {
		return nil, fmt.Errorf("package load errors (tags %s):\n%s", tags, strings.Join(errs, "\n"))
	}
	prog, _ := ssautil.AllPackages(pkgs, ssa.InstantiateGenerics)
	prog.Build()
	w := &World{prog: prog, tags: tags, pkgs: map[string]*ssa.Package{}, harnessSrc: ov}
	for _, p := range prog.AllPackages() {
		w.pkgs[p.Pkg.Path()] = p
	}
	if sp := w.pkgs["sync"]; sp != nil {
		w.poolType = sp.Type("Pool").Type()
	}
	if fp := w.pkgs["fmt"]; fp != nil {
		w.wrapErrorType = fp.Type("wrapError").Type()
	}
	w.asm, w.asmErr = parseAsmFile(filepath.Join(repoDir, "internal/lz4block/decode_amd64.s"), "decodeBlock", map[string]int64{"const_minMatch": 4})
	w.loadTime = time.Since(t0)
	return w, nil
}

// ---------- jobs ----------

type Job struct {
	ID       string
	Property string
	Harness  string // function name
	Pkg      string // import path suffix: "", "internal/lz4block", ...
	Tags     string
	Params   map[string]int
	Unwind   int
	MaxSteps int64
	MaxEnum  int
	MaxPaths int
	MaxDepth int
	Delays   int // concurrent harnesses: bound on the scheduling delays of a path
	Artificial bool
	Filter     func(assertID string) bool // assertions outside the property under check are skipped
	AllocLimit int         // cells: a single allocation above this is reported (0 = no limit)
	NoSummary  bool        // execute blockHash/blockHashHC bodies instead of their uninterpreted summary
	Fixed      []TapeEntry // concrete mode (translator validation): inputs bound to these values

	mu          sync.Mutex
	res         JobResult
	outstanding int
	done        chan struct{}
	reachWit    map[string]int
}

type Event struct {
	Kind   string
	Detail string
}

type TapeEntry struct {
	Name    string      `json:"name"`
	Kind    string      `json:"kind"`
	V       uint64      `json:"v"`
	Entries [][2]uint64 `json:"entries,omitempty"`
}

type Tape struct {
	Job      string            `json:"job"`
	Property string            `json:"property"`
	Harness  string            `json:"harness"`
	Pkg      string            `json:"pkg"`
	Tags     string            `json:"tags"`
	Params   map[string]int    `json:"params"`
	Inputs   []TapeEntry       `json:"inputs"`
	Expect   TapeExpect        `json:"expect"`
	Kind     string            `json:"kind"` // "counterexample" | "witness" | "known"
	Known    string            `json:"known,omitempty"`
	Notes    map[string]uint64 `json:"-"`
	Summarised bool            `json:"summarised,omitempty"` // path used the uninterpreted hash summary
	Conc       bool            `json:"conc,omitempty"`       // path ran more than one goroutine: "sched" inputs are its schedule
}

type TapeExpect struct {
	Fail  string            `json:"fail"`  // assertion id expected to fail ("" = none)
	Reach string            `json:"reach"` // label expected to be reached ("" = n/a)
	Notes map[string]uint64 `json:"notes,omitempty"`
}

type Failure struct {
	ID    string
	Tape  *Tape
	Known string
}

type PathResult struct {
	End          string
	Detail       string
	Events       []Event
	Inconclusive []string
	Failures     []Failure
	Witnesses    []*Tape
	Asserts      int
	Obligations  int
	Discharged   int
	Assumes      int
	Summaries    int
	Reached      []string
	MaxAlloc     int
	MaxAllocSite string
	Steps        int64
	Branches     int
	Forks        int
}

type JobResult struct {
	Paths        int
	EndCounts    map[string]int
	Failures     []Failure
	KnownHits    []Failure
	Witnesses    []*Tape
	Inconclusive []string
	Events       map[string]int
	EventSample  map[string]string
	Reached      map[string]int
	Asserts      int
	Obligations  int
	Discharged   int
	Steps        int64
	Branches     int
	Forks        int
	MaxAlloc     int
	MaxAllocSite string
	Solver       SolverStats
	Funcs        map[string]int
	Wall         time.Duration
	Truncated    bool
}

type WorkItem struct {
	Job    *Job
	Prefix []Decision
	Model  map[string]uint64
}

// ---------- scheduler ----------

type Sched struct {
	mu      sync.Mutex
	cond    *sync.Cond
	stack   []WorkItem
	active  int
	closed  bool
	worlds  map[string]*World
	wmu     sync.Mutex
	kfOpen  map[string]bool
	timeout int
	failures, maxFailures int
	stoppedEarly bool
	timedOut     bool
	deadline     time.Time
	budget       time.Duration
	cross        bool
	crossMax, crossDone, crossAgree, crossDisagree, crossUnknown int
	crossNote    string
}

func (s *Sched) isClosed() bool {
	s.mu.Lock()
	defer s.mu.Unlock()
	if !s.closed && !s.deadline.IsZero() && time.Now().After(s.deadline) {
		s.closed = true
		s.timedOut = true
	}
	return s.closed
}

func NewSched(timeoutMs int) *Sched {
	s := &Sched{worlds: map[string]*World{}, kfOpen: map[string]bool{}, timeout: timeoutMs, maxFailures: 40}
	s.cond = sync.NewCond(&s.mu)
	return s
}

func (s *Sched) world(tags string) (*World, error) {
	s.wmu.Lock()
	defer s.wmu.Unlock()
	if w, ok := s.worlds[tags]; ok {
		return w, nil
	}
	w, err := loadWorld(tags)
	if err != nil {
		return nil, err
	}
	s.worlds[tags] = w
	return w, nil
}

func (s *Sched) push(items ...WorkItem) {
	s.mu.Lock()
	s.stack = append(s.stack, items...)
	s.mu.Unlock()
	s.cond.Broadcast()
}

func (s *Sched) pop() (WorkItem, bool) {
	s.mu.Lock()
	defer s.mu.Unlock()
	if !s.closed && !s.deadline.IsZero() && time.Now().After(s.deadline) {
		s.closed = true
		s.timedOut = true
	}
	if s.closed {
		return WorkItem{}, false
	}
	for len(s.stack) == 0 {
		if s.active == 0 || s.closed {
			s.cond.Broadcast()
			return WorkItem{}, false
		}
		s.cond.Wait()
	}
	it := s.stack[len(s.stack)-1]
	s.stack = s.stack[:len(s.stack)-1]
	s.active++
	return it, true
}

func (s *Sched) finish() {
	s.mu.Lock()
	s.active--
	s.mu.Unlock()
	s.cond.Broadcast()
}

type Worker struct {
	s      *Sched
	job    *Job
	ts     *TermStore
	sv     *Solver
	w      *World
	infos  map[*ssa.Function]*fnInfo
	npaths int
	resetEvery int
}

func (wk *Worker) switchJob(j *Job) error {
	if wk.job == j && wk.ts != nil && wk.ts.nextID < 3_000_000 {
		return nil
	}
	if wk.sv != nil {
		wk.flushSolverStats()
		wk.sv.Close()
	}
	w, err := wk.s.world(j.Tags)
	if err != nil {
		return err
	}
	wk.w = w
	wk.job = j
	wk.ts = NewTermStore()
	wk.sv = NewSolver(wk.ts, "z3-new", wk.s.timeout)
	if wk.infos == nil {
		wk.infos = map[*ssa.Function]*fnInfo{}
	}
	return nil
}

func (wk *Worker) flushSolverStats() {
	if wk.job != nil && wk.sv != nil {
		wk.job.mu.Lock()
		wk.job.res.Solver.add(wk.sv.stats)
		wk.job.mu.Unlock()
		wk.sv.stats = SolverStats{}
	}
}

func (s *Sched) runAll(jobs []*Job, nworkers int) {
	for _, j := range jobs {
		j.res.EndCounts = map[string]int{}
		j.res.Events = map[string]int{}
		j.res.EventSample = map[string]string{}
		j.res.Reached = map[string]int{}
		j.res.Funcs = map[string]int{}
		j.reachWit = map[string]int{}
	}
	if s.deadline.IsZero() && s.budget > 0 {
		s.deadline = time.Now().Add(s.budget)
	}
	// push in reverse so that the first job is popped first
	for i := len(jobs) - 1; i >= 0; i-- {
		s.stack = append(s.stack, WorkItem{Job: jobs[i]})
	}
	if os.Getenv("VERIF_PROGRESS") != "" {
		stop := make(chan struct{})
		defer close(stop)
		go func() {
			t0 := time.Now()
			for {
				select {
				case <-stop:
					return
				case <-time.After(10 * time.Second):
				}
				var paths int
				type jw struct {
					id string
					p  int
					w  time.Duration
				}
				var heavy []jw
				started := 0
				for _, j := range jobs {
					j.mu.Lock()
					paths += j.res.Paths
					if j.res.Paths > 0 {
						started++
					}
					heavy = append(heavy, jw{j.ID, j.res.Paths, j.res.Wall})
					j.mu.Unlock()
				}
				sort.Slice(heavy, func(a, b int) bool { return heavy[a].w > heavy[b].w })
				s.mu.Lock()
				q := len(s.stack)
				s.mu.Unlock()
				fmt.Fprintf(os.Stderr, "[progress %4.0fs] jobs started %d/%d paths %d queue %d; heaviest:", time.Since(t0).Seconds(), started, len(jobs), paths, q)
				for i := 0; i < 4 && i < len(heavy); i++ {
					fmt.Fprintf(os.Stderr, " %s(%d paths, %.0fs)", heavy[i].id, heavy[i].p, heavy[i].w.Seconds())
				}
				fmt.Fprintln(os.Stderr)
			}
		}()
	}
	var wg sync.WaitGroup
	for i := 0; i < nworkers; i++ {
		wg.Add(1)
		go func() {
			defer wg.Done()
			wk := &Worker{s: s, resetEvery: 50}
			if v := os.Getenv("VERIF_RESET_EVERY"); v != "" {
				wk.resetEvery, _ = strconv.Atoi(v)
			}
			for {
				it, ok := s.pop()
				if !ok {
					break
				}
				wk.runItem(it)
				s.finish()
			}
			if wk.sv != nil {
				wk.flushSolverStats()
				wk.sv.Close()
			}
		}()
	}
	wg.Wait()
}

func (wk *Worker) runItem(it WorkItem) {
	j := it.Job
	j.mu.Lock()
	if j.MaxPaths > 0 && j.res.Paths >= j.MaxPaths {
		j.res.Truncated = true
		j.mu.Unlock()
		return
	}
	j.mu.Unlock()
	if err := wk.switchJob(j); err != nil {
		j.mu.Lock()
		j.res.Inconclusive = append(j.res.Inconclusive, "load: "+err.Error())
		j.mu.Unlock()
		return
	}
	t0 := time.Now()
	pr, pending, funcs := wk.runPath(it)
	wk.flushSolverStats()
	j.mu.Lock()
	r := &j.res
	r.Paths++
	r.EndCounts[pr.End]++
	nfail := 0
	for _, f := range pr.Failures {
		// counterexamples from paths that used the hash summary may not survive the concrete
		// re-run with the real hash: they do not count towards the early stop
		if f.Known == "" && f.Tape != nil && !f.Tape.Summarised && (j.Filter == nil || j.Filter(f.Tape.Expect.Fail)) {
			nfail++
		}
	}
	if nfail > 0 {
		wk.s.mu.Lock()
		wk.s.failures += nfail
		if wk.s.failures >= wk.s.maxFailures && !wk.s.closed {
			// enough counterexamples to report: stop exploring (the run is not a pass anyway)
			wk.s.closed = true
			wk.s.stoppedEarly = true
		}
		wk.s.mu.Unlock()
		wk.s.cond.Broadcast()
	}
	for _, f := range pr.Failures {
		if f.Known != "" {
			if len(r.KnownHits) < 16 {
				r.KnownHits = append(r.KnownHits, f)
			}
		} else if len(r.Failures) < 8 {
			r.Failures = append(r.Failures, f)
		}
	}
	for _, wt := range pr.Witnesses {
		if len(r.Witnesses) < 6 {
			r.Witnesses = append(r.Witnesses, wt)
		}
	}
	for _, inc := range pr.Inconclusive {
		if len(r.Inconclusive) < 20 {
			r.Inconclusive = append(r.Inconclusive, inc)
		}
	}
	for _, e := range pr.Events {
		r.Events[e.Kind]++
		if _, ok := r.EventSample[e.Kind]; !ok {
			r.EventSample[e.Kind] = e.Detail
		}
	}
	for _, l := range pr.Reached {
		r.Reached[l]++
	}
	r.Asserts += pr.Asserts
	r.Obligations += pr.Obligations
	r.Discharged += pr.Discharged
	r.Steps += pr.Steps
	r.Branches += pr.Branches
	r.Forks += pr.Forks
	if pr.MaxAlloc > r.MaxAlloc {
		r.MaxAlloc = pr.MaxAlloc
		r.MaxAllocSite = pr.MaxAllocSite
	}
	for f := range funcs {
		r.Funcs[f]++
	}
	r.Wall += time.Since(t0)
	j.mu.Unlock()
	if len(pending) > 0 {
		wk.s.push(pending...)
	}
}

func (wk *Worker) runPath(it WorkItem) (pr *PathResult, pending []WorkItem, funcs map[string]bool) {
	j := it.Job
	pr = &PathResult{}
	ex := &Exec{
		w: wk.w, ts: wk.ts, sv: wk.sv, job: j, prefix: it.Prefix,
		globals:  map[*ssa.Global]*Object{},
		consts:   map[*ssa.Const]Value{},
		infos:    wk.infos,
		path:     pr,
		maxSteps: j.MaxSteps,
		unwind:   int32(j.Unwind),
		maxDepth: j.MaxDepth,
		funcsHit: map[*ssa.Function]bool{},
		known:    map[*Term]uint64{},
		model:    it.Model,
		fixed:    j.Fixed,
	}
	if len(it.Prefix) == 0 {
		ex.model = map[string]uint64{}
	}
	if ex.maxSteps == 0 {
		ex.maxSteps = 50_000_000
	}
	if ex.unwind == 0 {
		ex.unwind = 400
	}
	if ex.maxDepth == 0 {
		ex.maxDepth = 64
	}
	if j.MaxEnum == 0 {
		j.MaxEnum = 64
	}
	ex.sched = wk.s
	wk.sv.where = func() string {
		w := ""
		for f := ex.curFrame; f != nil && len(w) < 200; f = f.caller {
			w += " < " + f.fn.Name()
		}
		return fmt.Sprintf("pc=%d defs=%d%s", len(ex.pc), wk.sv.nDefs, w)
	}
	wk.ts.subst = map[*Term]*Term{}
	wk.sv.PopTo(0)
	wk.npaths++
	if wk.resetEvery > 0 && wk.npaths%wk.resetEvery == 0 {
		wk.sv.rebuild()
	}
	wk.sv.Push()
	ex.solverGen = wk.sv.deaths
	funcs = map[string]bool{}
	defer func() {
		pr.Steps = ex.stats.steps
		pr.Branches = ex.stats.branches
		pr.Forks = ex.stats.forks
		for f := range ex.funcsHit {
			funcs[f.String()] = true
		}
		pending = ex.pending
		r := recover()
		ex.concEnd()
		if r != nil {
			switch e := r.(type) {
			case pathAbort:
				pr.End = e.reason
				pr.Detail = e.detail
				if e.reason == "solver" || e.reason == "steps" || (e.reason == "budget" && wk.s.timedOut) {
					pr.Inconclusive = append(pr.Inconclusive, e.reason+": "+e.detail)
				}
				if e.reason == "unwind" {
					// an unwinding failure is reported as a failed implicit assertion with a witness
					ex.recordImplicitFailure("unwind", e.detail)
				}
			case unsupportedErr:
				pr.End = "unsupported"
				pr.Detail = e.msg
				pr.Inconclusive = append(pr.Inconclusive, "unsupported: "+e.msg)
			case *GoPanic:
				pr.End = "panic"
				pr.Detail = e.msg
				ex.recordImplicitFailure("no-panic", "Go panic escaped the harness: "+e.msg+" "+valueString(e.val))
			default:
				pr.End = "internal"
				pr.Detail = fmt.Sprintf("%v\n%s", r, debug.Stack())
				pr.Inconclusive = append(pr.Inconclusive, "internal error: "+fmt.Sprint(r)+"\n"+string(debug.Stack()))
			}
		}
		if wk.sv.sawError {
			pr.Inconclusive = append(pr.Inconclusive, "solver error: "+wk.sv.lastErr)
			wk.sv.sawError = false
		}
	}()
	pkgPath := modPath
	if j.Pkg != "" {
		pkgPath += "/" + j.Pkg
	}
	sp := wk.w.pkgs[pkgPath]
	if sp == nil {
		panic(unsupported("no package " + pkgPath))
	}
	hf := sp.Func(j.Harness)
	if hf == nil {
		panic(unsupported("no harness function " + j.Harness + " in " + pkgPath))
	}
	ex.runInits()
	ex.callFunction(nil, hf, nil, nil, nil)
	pr.End = "ok"
	return
}

var initPkgs = []string{"errors", "io", "io/ioutil", "bytes", "encoding/binary",
	modPath + "/internal/lz4errors", modPath + "/internal/xxh32", modPath + "/internal/lz4block",
	modPath + "/internal/lz4stream", modPath}

func (ex *Exec) runInits() {
	ex.inInit = true
	saveSteps := ex.maxSteps
	for _, p := range initPkgs {
		sp := ex.w.pkgs[p]
		if sp == nil {
			continue
		}
		fn := sp.Func("init")
		if fn == nil {
			continue
		}
		strict := strings.HasPrefix(p, modPath)
		ex.runInitFunc(fn, strict)
	}
	ex.maxSteps = saveSteps
	ex.inInit = false
	ex.stats.steps = 0
	ex.funcsHit = map[*ssa.Function]bool{}
}

// runInitFunc executes a package initializer. Calls to other packages' init functions are skipped.
// In non-strict mode (standard library) instructions that cannot be executed are skipped.
func (ex *Exec) runInitFunc(fn *ssa.Function, strict bool) {
	info := ex.infoOf(fn)
	fr := &Frame{fn: fn, info: info, regs: make([]Value, info.nregs), visits: make([]int32, len(fn.Blocks))}
	fr.block = fn.Blocks[0]
	for fr.block != nil {
		b := fr.block
		next := (*ssa.BasicBlock)(nil)
		for _, instr := range b.Instrs {
			done := false
			func() {
				defer func() {
					if r := recover(); r != nil {
						if strict {
							panic(r)
						}
						if _, ok := r.(pathAbort); ok {
							panic(r)
						}
						// skip instruction
					}
				}()
				switch in := instr.(type) {
				case *ssa.Call:
					if callee := in.Call.StaticCallee(); callee != nil && callee.Name() == "init" && callee.Pkg != fn.Pkg {
						return
					}
					if callee := in.Call.StaticCallee(); callee != nil && strings.HasPrefix(callee.Name(), "init#") {
						if !strict {
							return
						}
					}
					ex.visit(fr, instr)
				case *ssa.If:
					// init guard: if *init$guard goto done else body
					c, ok := ex.get(fr, in.Cond).(*Term)
					succ := 1
					if ok && c.IsConst() && c.val != 0 {
						succ = 0
					}
					fr.prev = b
					next = b.Succs[succ]
					done = true
				case *ssa.Jump:
					fr.prev = b
					next = b.Succs[0]
					done = true
				case *ssa.Return:
					next = nil
					done = true
				default:
					ex.visit(fr, instr)
				}
			}()
			if done {
				break
			}
		}
		fr.block = next
	}
}

// ---------- assertions, reach, tapes ----------

func (ex *Exec) tapeTerms() []*Term {
	var ts []*Term
	for _, in := range ex.inputs {
		if in.Kind == "arrfixed" {
			continue
		}
		if in.Arr != nil {
			for _, s := range ex.ts.sel[in.Arr.name] {
				ts = append(ts, s.a, s)
			}
		} else {
			ts = append(ts, in.T)
		}
	}
	for _, n := range ex.notes {
		ts = append(ts, n.T)
	}
	return ts
}

// extractTape must be called right after a Sat answer, before the solver state changes.
func (ex *Exec) extractTape(terms []*Term) *Tape {
	vals, ok := ex.sv.GetValues(terms)
	if !ok {
		ex.path.Inconclusive = append(ex.path.Inconclusive, "get-value failed: "+ex.sv.lastErr)
		return nil
	}
	tp := &Tape{Job: ex.job.ID, Property: ex.job.Property, Harness: ex.job.Harness, Pkg: ex.job.Pkg, Tags: ex.job.Tags, Params: ex.job.Params, Summarised: ex.path.Summaries > 0, Conc: ex.conc != nil && len(ex.conc.gs) > 1}
	k := 0
	for _, in := range ex.inputs {
		if in.Kind == "arrfixed" {
			tp.Inputs = append(tp.Inputs, TapeEntry{Name: in.Name, Kind: "arr", Entries: in.Entries})
			continue
		}
		if in.Arr != nil {
			e := TapeEntry{Name: in.Name, Kind: "arr"}
			seen := map[uint64]bool{}
			for range ex.ts.sel[in.Arr.name] {
				idx, v := vals[k], vals[k+1]
				k += 2
				if !seen[idx] {
					seen[idx] = true
					e.Entries = append(e.Entries, [2]uint64{idx, v})
				}
			}
			sort.Slice(e.Entries, func(a, b int) bool { return e.Entries[a][0] < e.Entries[b][0] })
			tp.Inputs = append(tp.Inputs, e)
		} else {
			tp.Inputs = append(tp.Inputs, TapeEntry{Name: in.Name, Kind: in.Kind, V: vals[k]})
			k++
		}
	}
	tp.Expect.Notes = map[string]uint64{}
	for _, n := range ex.notes {
		tp.Expect.Notes[n.Key] = vals[k]
		k++
	}
	return tp
}

// checkViolation asks whether pc ∧ extra is satisfiable and, if so, extracts a tape.
func (ex *Exec) checkViolation(extra ...*Term) (Result, *Tape) {
	for _, e := range extra {
		if e.IsFalse() {
			return Unsat, nil
		}
	}
	// Prefer a counterexample that does not rely on a collision of the summarised hash (equal hash
	// values only for equal arguments): such a model also behaves the same with the real hash.
	if len(ex.apps) > 1 && len(ex.apps) <= 120 && !ex.noInj {
		inj := ex.ts.tTrue
		seen := map[*Term]bool{}
		var uniq []*Term
		for _, a := range ex.apps {
			if !seen[a] && a.op == OpApply {
				seen[a] = true
				uniq = append(uniq, a)
			}
		}
		for i := 0; i < len(uniq); i++ {
			for j := i + 1; j < len(uniq); j++ {
				if uniq[i].name != uniq[j].name {
					continue
				}
				inj = ex.ts.BAnd(inj, ex.ts.BOr(ex.ts.Ne(uniq[i], uniq[j]), ex.ts.Eq(uniq[i].a, uniq[j].a)))
			}
		}
		if !inj.IsTrue() {
			ex.noInj = true
			r, tp := ex.checkViolation(append(append([]*Term{}, extra...), inj)...)
			ex.noInj = false
			if r == Sat {
				return r, tp
			}
		}
	}
	terms := ex.tapeTerms()
	for _, t := range terms {
		ex.sv.declare(t)
	}
	ex.sv.Push()
	for _, e := range extra {
		ex.sv.Assert(e)
	}
	t0 := time.Now()
	r := ex.sv.Check()
	if d := time.Since(t0); d > 300*time.Millisecond && os.Getenv("VERIF_DEBUG") != "" {
		for _, e := range extra {
			cs := e.String()
			if len(cs) > 1500 {
				cs = cs[:1500]
			}
			fmt.Fprintf(os.Stderr, "SLOW assertion query %v: %s\n", d, cs)
		}
	}
	ex.checkSolverAlive()
	var tp *Tape
	if r == Sat {
		tp = ex.extractTape(terms)
	}
	ex.sv.Pop()
	return r, tp
}

func (ex *Exec) vfAssert(id string, c *Term, kf string, inClass *Term) {
	if ex.job.Filter != nil && !ex.job.Filter(id) {
		return // belongs to another property's check of the same harness
	}
	ex.path.Asserts++
	if c.IsTrue() {
		return
	}
	ts := ex.ts
	nc := ts.BNot(c)
	ex.path.Obligations++
	if kf != "" && ex.w != nil && ex.job != nil && kfIsOpen(kf) {
		r, tp := ex.checkViolation(nc, ts.BNot(inClass))
		switch r {
		case Sat:
			if tp != nil {
				tp.Kind = "counterexample"
				tp.Expect.Fail = id
				ex.path.Failures = append(ex.path.Failures, Failure{ID: id, Tape: tp})
			}
		case Unknown:
			ex.path.Inconclusive = append(ex.path.Inconclusive, "unknown on assertion "+id)
		default:
			ex.path.Discharged++
		}
		// known class hit (one witness per job is enough)
		ex.job.mu.Lock()
		have := 0
		for _, kh := range ex.job.res.KnownHits {
			if kh.Known == kf {
				have++
			}
		}
		ex.job.mu.Unlock()
		if have < 1 {
			r2, tp2 := ex.checkViolation(nc, inClass)
			if r2 == Sat && tp2 != nil {
				tp2.Kind = "known"
				tp2.Known = kf
				tp2.Expect.Fail = id
				ex.path.Failures = append(ex.path.Failures, Failure{ID: id, Tape: tp2, Known: kf})
			}
		}
	} else {
		r, tp := ex.checkViolation(nc)
		switch r {
		case Sat:
			if tp != nil {
				tp.Kind = "counterexample"
				tp.Expect.Fail = id
				ex.path.Failures = append(ex.path.Failures, Failure{ID: id, Tape: tp})
			}
			ex.abort("assert", "assertion "+id+" violated")
		case Unknown:
			ex.path.Inconclusive = append(ex.path.Inconclusive, "unknown on assertion "+id)
			if os.Getenv("VERIF_DEBUG") != "" {
				fmt.Fprintf(os.Stderr, "UNKNOWN assertion %s job %s trace=%v\n", id, ex.job.ID, ex.trace)
				if c.op == OpEq {
					debugDiff(c.a, c.b, 0)
				}
			}
		default:
			ex.path.Discharged++
			ex.crossCheck(nc)
		}
	}
	if c.IsFalse() || !ex.feasible(c) {
		ex.abort("assert", "assertion "+id+" cannot hold on this path")
	}
	ex.assertPC(c)
}

func (ex *Exec) recordImplicitFailure(id, detail string) {
	defer func() {
		if r := recover(); r != nil {
			ex.path.Inconclusive = append(ex.path.Inconclusive, fmt.Sprintf("while recording %s: %v", id, r))
		}
	}()
	if ex.sv.deaths != ex.solverGen {
		return
	}
	ex.path.Obligations++
	r, tp := ex.checkViolation()
	if r == Sat && tp != nil {
		tp.Kind = "counterexample"
		tp.Expect.Fail = id
		ex.path.Failures = append(ex.path.Failures, Failure{ID: id + ": " + detail, Tape: tp})
	} else if r == Unknown {
		ex.path.Inconclusive = append(ex.path.Inconclusive, "unknown while building witness for "+id)
	}
}

func (ex *Exec) reach(label string) {
	ex.path.Reached = append(ex.path.Reached, label)
	ex.job.mu.Lock()
	n := ex.job.reachWit[label]
	if n < 1 {
		ex.job.reachWit[label] = n + 1
	}
	ex.job.mu.Unlock()
	if n >= 1 {
		return
	}
	r, tp := ex.checkViolation()
	if r == Sat && tp != nil {
		tp.Kind = "witness"
		tp.Expect.Reach = label
		ex.path.Witnesses = append(ex.path.Witnesses, tp)
	} else if r != Sat {
		ex.job.mu.Lock()
		ex.job.reachWit[label]--
		ex.job.mu.Unlock()
		ex.path.Inconclusive = append(ex.path.Inconclusive, "reach witness for "+label+" not sat: "+r.String())
	}
}

var kfMu sync.Mutex
var kfOpenSet = map[string]bool{}

func kfIsOpen(name string) bool {
	kfMu.Lock()
	defer kfMu.Unlock()
	return kfOpenSet[name]
}

func debugDiff(a, b *Term, depth int) {
	if a == b || depth > 60 {
		return
	}
	if a.op != b.op || a.w != b.w || a.val != b.val || a.name != b.name {
		fmt.Fprintf(os.Stderr, "DIFF depth %d:\n  A=%s\n  B=%s\n", depth, a, b)
		return
	}
	kids := func(t *Term) []*Term { return []*Term{t.a, t.b, t.c} }
	ka, kb := kids(a), kids(b)
	nd := 0
	for i := range ka {
		if ka[i] != kb[i] {
			nd++
		}
	}
	// swapped operands?
	if nd == 2 && ka[0] == kb[1] && ka[1] == kb[0] {
		fmt.Fprintf(os.Stderr, "SWAPPED at depth %d op %s ids a=(%d,%d) b=(%d,%d)\n  X=%s\n  Y=%s\n", depth, opNames[a.op], ka[0].id, ka[1].id, kb[0].id, kb[1].id, ka[0], ka[1])
		return
	}
	for i := range ka {
		if ka[i] != kb[i] && ka[i] != nil && kb[i] != nil {
			debugDiff(ka[i], kb[i], depth+1)
		}
	}
}

// crossCheck (thorough tier): re-decides a discharged obligation with z3 4.8.12 and cvc5 in fresh
// processes; a solver that answers sat where the primary said unsat is an engine-level alarm.
func (ex *Exec) crossCheck(negated *Term) {
	if ex.sched == nil || !ex.sched.cross {
		return
	}
	ex.sched.mu.Lock()
	if ex.sched.crossDone >= ex.sched.crossMax {
		ex.sched.mu.Unlock()
		return
	}
	ex.sched.crossDone++
	n := ex.sched.crossDone
	ex.sched.mu.Unlock()
	path := fmt.Sprintf("%s/cross_%d.smt2", workDir(), n)
	f, err := os.Create(path)
	if err != nil {
		return
	}
	ex.ts.DumpStandalone(f, append(append([]*Term{}, ex.pc...), negated))
	f.Close()
	defer os.Remove(path)
	for _, cmd := range [][]string{{"z3", "-T:60", path}, {"cvc5", "--tlimit=60000", path}} {
		out, _ := exec.Command(cmd[0], cmd[1:]...).Output()
		ans := strings.TrimSpace(strings.SplitN(string(out), "\n", 2)[0])
		ex.sched.mu.Lock()
		switch ans {
		case "unsat":
			ex.sched.crossAgree++
		case "sat":
			ex.sched.crossDisagree++
			ex.sched.crossNote = fmt.Sprintf("%s answers sat on an obligation z3 5.1.0 decided unsat (job %s)", cmd[0], ex.job.ID)
		default:
			ex.sched.crossUnknown++
		}
		ex.sched.mu.Unlock()
	}
}
