package main

import (
	"bytes"
	"crypto/sha1"
	"encoding/json"
	"fmt"
	"os"
	"os/exec"
	"path/filepath"
	"sort"
	"strconv"
	"strings"
	"time"
)

const concNativeAttempts = 6

// sourceTreeID names the tree the encoding was generated from: directory, HEAD and whether the
// working tree differs from it.
func sourceTreeID() string {
	head, _ := exec.Command("git", "-C", repoDir, "rev-parse", "--short", "HEAD").Output()
	st, _ := exec.Command("git", "-C", repoDir, "status", "--porcelain", "--untracked-files=no").Output()
	id := repoDir + " @ " + strings.TrimSpace(string(head))
	if len(strings.TrimSpace(string(st))) > 0 {
		id += " + uncommitted changes"
	}
	return id
}

type CheckDef struct {
	Property    string
	Jobs        func(tier string) []*Job
	Bounds      func(tier string) []string
	Outside     []string
	Assumptions []string
	Dual        bool // counterexamples are replayed under both build configurations and compared
	Filter      func(assertID string) bool // which assertion ids belong to this property (nil = all)
}

var checkDefs = map[string]*CheckDef{}

type KnownFinding struct {
	Property string `json:"property"`
	Class    string `json:"class"`
	Status   string `json:"status"` // "open" | "fixed"
	What     string `json:"what"`
	Commit   string `json:"commit,omitempty"`
	Replay   string `json:"replay,omitempty"`
}

type KnownFile struct {
	Findings []KnownFinding `json:"findings"`
	Fixed    []string       `json:"fixed"`
}

func loadKnown() KnownFile {
	var kf KnownFile
	b, err := os.ReadFile(filepath.Join(verifDir(), "known_findings.json"))
	if err != nil {
		return kf
	}
	json.Unmarshal(b, &kf)
	kfMu.Lock()
	for _, f := range kf.Findings {
		if f.Status == "open" {
			kfOpenSet[f.Class] = true
		}
	}
	kfMu.Unlock()
	return kf
}

func cmdCheck(args []string) int {
	prop := args[0]
	tier := os.Getenv("VERIF_TIER")
	if tier == "" {
		tier = "quick"
	}
	workers := 16
	only := ""
	for i := 1; i < len(args); i++ {
		switch args[i] {
		case "--tier":
			i++
			tier = args[i]
		case "--workers":
			i++
			workers, _ = strconv.Atoi(args[i])
		case "--only":
			i++
			only = args[i]
		}
	}
	seed := 0
	if s := os.Getenv("VERIF_SEED"); s != "" {
		seed, _ = strconv.Atoi(s)
	}
	def := checkDefs[prop]
	if def == nil {
		fmt.Fprintf(os.Stderr, "no check registered for %s\n", prop)
		return 2
	}
	known := loadKnown()
	t0 := time.Now()
	jobs := def.Jobs(tier)
	if only != "" {
		var f []*Job
		for _, j := range jobs {
			if strings.Contains(j.ID, only) {
				f = append(f, j)
			}
		}
		jobs = f
	}
	for _, j := range jobs {
		j.Property = prop
		j.Filter = def.Filter
	}
	timeout := 20000
	if tier == "thorough" {
		timeout = 120000
	}
	if s := os.Getenv("VERIF_SOLVER_TIMEOUT_MS"); s != "" {
		timeout, _ = strconv.Atoi(s)
	}
	s := NewSched(timeout)
	s.budget = 900 * time.Second
	if tier == "thorough" {
		s.budget = 75 * time.Minute
		s.cross = true
		s.crossMax = 150
	}
	if v := os.Getenv("VERIF_BUDGET_S"); v != "" {
		if n, err := strconv.Atoi(v); err == nil {
			s.budget = time.Duration(n) * time.Second
		}
	}
	s.runAll(jobs, workers)
	exploreWall := time.Since(t0)

	// ---- gather ----
	type tapeRef struct {
		tp  *Tape
		job *Job
		f   *Failure
	}
	var all []tapeRef
	var inconclusive []string
	otherProp := map[string]int{}
	spurious := 0
	tot := JobResult{EndCounts: map[string]int{}, Events: map[string]int{}, Funcs: map[string]int{}, Reached: map[string]int{}}
	for _, j := range jobs {
		r := &j.res
		tot.Paths += r.Paths
		tot.Asserts += r.Asserts
		tot.Obligations += r.Obligations
		tot.Discharged += r.Discharged
		tot.Steps += r.Steps
		tot.Branches += r.Branches
		tot.Forks += r.Forks
		tot.Solver.add(r.Solver)
		for k, v := range r.EndCounts {
			tot.EndCounts[k] += v
		}
		for k, v := range r.Events {
			tot.Events[k] += v
		}
		for k, v := range r.Funcs {
			tot.Funcs[k] += v
		}
		for k, v := range r.Reached {
			tot.Reached[j.ID+":"+k] += v
		}
		if r.MaxAlloc > tot.MaxAlloc {
			tot.MaxAlloc = r.MaxAlloc
			tot.MaxAllocSite = r.MaxAllocSite
		}
		for _, inc := range r.Inconclusive {
			inconclusive = append(inconclusive, j.ID+": "+inc)
		}
		if r.Truncated {
			inconclusive = append(inconclusive, j.ID+": path budget exhausted")
		}
		if r.Paths == 0 && !s.stoppedEarly && !s.timedOut {
			inconclusive = append(inconclusive, j.ID+": no path executed")
		}
		for i := range r.Failures {
			if def.Filter != nil && !def.Filter(r.Failures[i].Tape.Expect.Fail) {
				otherProp[r.Failures[i].Tape.Expect.Fail]++
				continue
			}
			all = append(all, tapeRef{r.Failures[i].Tape, j, &r.Failures[i]})
		}
		for i := range r.KnownHits {
			all = append(all, tapeRef{r.KnownHits[i].Tape, j, &r.KnownHits[i]})
		}
		for _, w := range r.Witnesses {
			all = append(all, tapeRef{w, j, nil})
		}
		// vacuity: every job must reach its end label at least once unless it reported failures
		if len(r.Reached) == 0 && len(r.Failures) == 0 && len(r.KnownHits) == 0 && !s.stoppedEarly && !s.timedOut {
			inconclusive = append(inconclusive, j.ID+": vacuous (no reach label was hit)")
		}
	}

	engineReplayed := map[*Tape]bool{} // concurrent counterexamples reproduced by the executor under their recorded schedule
	// ---- tapes from paths that used the hash summary: re-run concretely with the real hash ----
	// (the solver's model fixes the bytes; the uninterpreted hash values it chose need not be the
	// real ones, so the concrete outcome is recomputed by the executor in interpreter mode)
	{
		var cj []*Job
		var idx []int
		for i, tr := range all {
			if tr.tp.Summarised || (tr.tp.Conc && tr.f != nil) {
				j := mkJob(tr.job.ID+"#concrete", tr.job.Harness, tr.job.Pkg, tr.job.Tags, tr.job.Params)
				j.Delays = tr.job.Delays
				j.Filter = def.Filter
				j.Property = prop
				j.Unwind = tr.job.Unwind
				j.Fixed = tr.tp.Inputs
				j.MaxSteps = tr.job.MaxSteps
				cj = append(cj, j)
				idx = append(idx, i)
			}
		}
		if len(cj) > 0 {
			s2 := NewSched(timeout)
			s2.worlds = s.worlds
			s2.runAll(cj, workers)
			for k, j := range cj {
				i := idx[k]
				orig := all[i]
				var got *Tape
				var gotFail *Failure
				if len(j.res.Failures) > 0 {
					gotFail = &j.res.Failures[0]
					got = gotFail.Tape
				} else if len(j.res.Witnesses) > 0 {
					got = j.res.Witnesses[0]
				}
				if got == nil {
					inconclusive = append(inconclusive, orig.job.ID+": concrete re-run of a summarised tape produced no outcome: "+strings.Join(j.res.Inconclusive, "; "))
					all[i].tp = nil
					continue
				}
				got.Job = orig.tp.Job
				got.Summarised = false
				if orig.tp.Conc {
					engineReplayed[got] = true
				}
				if orig.f == nil {
					// witness
					if gotFail != nil {
						if def.Filter == nil || def.Filter(got.Expect.Fail) {
							all[i] = tapeRef{got, orig.job, gotFail}
						} else {
							all[i].tp = nil
						}
					} else {
						all[i].tp = got
					}
				} else {
					if gotFail != nil && gotFail.Tape.Expect.Fail == orig.tp.Expect.Fail {
						gotFail.Known = orig.f.Known
						got.Kind = orig.tp.Kind
						got.Known = orig.tp.Known
						all[i] = tapeRef{got, orig.job, gotFail}
					} else if orig.tp.Conc && !orig.tp.Summarised {
						inconclusive = append(inconclusive, orig.job.ID+": the executor's replay of a concurrent counterexample under its recorded schedule did not reproduce "+orig.tp.Expect.Fail)
						all[i].tp = nil
					} else {
						spurious++
						all[i].tp = nil
					}
				}
			}
			var kept []tapeRef
			for _, tr := range all {
				if tr.tp != nil {
					kept = append(kept, tr)
				}
			}
			all = kept
		}
	}
	if spurious > 0 {
		inconclusive = append(inconclusive, fmt.Sprintf("%d counterexample(s) found under the uninterpreted hash summary do not fail with the real hash values of their inputs (a real counterexample may need a specific hash collision); not decided", spurious))
	}

	// tapes of the repetition harness are replayed natively with a very large repetition count:
	// unbounded recursion then exhausts the stack (the engine sees it as growth of the call depth)
	for i, tr := range all {
		if tr.tp.Harness == "H_repeat" && tr.f != nil {
			cp := *tr.tp
			cp.Params = map[string]int{}
			for k, v := range tr.tp.Params {
				cp.Params[k] = v
			}
			cp.Params["k"] = 30000000
			cp.Expect.Fail = "unwind (recursion grows with the repetition count)"
			all[i].tp = &cp
		}
	}

	// ---- native replay ----
	var replayLog bytes.Buffer
	groups := map[string][]int{}
	for i, tr := range all {
		k := tr.tp.Pkg + "|" + tr.tp.Tags
		if tr.tp.Conc {
			k += "|race"
		}
		groups[k] = append(groups[k], i)
	}
	outcomes := make([]Outcome, len(all))
	var gkeys []string
	for k := range groups {
		gkeys = append(gkeys, k)
	}
	sort.Strings(gkeys)
	replayOK := true
	for _, k := range gkeys {
		idxs := groups[k]
		parts := strings.Split(k, "|")
		race := len(parts) > 2
		var tps []*Tape
		for _, i := range idxs {
			tps = append(tps, all[i].tp)
		}
		outs, err := replayTapesOpt(tps, parts[0], parts[1], &replayLog, race)
		if err != nil {
			fmt.Println("REPLAY-ERROR:", err)
			replayOK = false
			continue
		}
		for n, i := range idxs {
			outcomes[i] = outs[n]
		}
		if race {
			// the Go scheduler cannot be steered: a schedule-dependent counterexample gets more native runs
			for attempt := 0; attempt < concNativeAttempts; attempt++ {
				var again []*Tape
				var aidx []int
				for _, i := range idxs {
					if all[i].f == nil {
						continue
					}
					if ok, _ := judgeTape(all[i].tp, outcomes[i]); !ok {
						again = append(again, all[i].tp)
						aidx = append(aidx, i)
					}
				}
				if len(again) == 0 || len(again) > 24 {
					break
				}
				outs2, err := replayTapesOpt(again, parts[0], parts[1], &replayLog, true)
				if err != nil {
					break
				}
				for n, i := range aidx {
					if ok, _ := judgeTape(all[i].tp, outs2[n]); ok {
						outcomes[i] = outs2[n]
					}
				}
			}
		}
	}
	var dualOutcomes []Outcome
	if def.Dual {
		// replay counterexamples under the other build configuration too
		dualOutcomes = make([]Outcome, len(all))
		for _, k := range gkeys {
			parts := strings.Split(k, "|")
			other := "verif"
			if parts[1] == "verif" {
				other = "verif,noasm"
			}
			var tps []*Tape
			var idxs []int
			for _, i := range groups[k] {
				if all[i].f != nil {
					tps = append(tps, all[i].tp)
					idxs = append(idxs, i)
				}
			}
			outs, err := replayTapes(tps, parts[0], other, &replayLog)
			if err != nil {
				fmt.Println("REPLAY-ERROR:", err)
				replayOK = false
				continue
			}
			for n, i := range idxs {
				dualOutcomes[i] = outs[n]
			}
		}
	}

	// Out-of-bounds accesses by the assembly are not observable in ordinary heap memory: replay
	// those tapes again with the buffers ending (layout 1) / starting (layout 2) at an
	// inaccessible page and keep the first layout that shows the misbehaviour natively.
	if replayOK {
		for _, layout := range []int{1, 2} {
			var idxs []int
			var tps []*Tape
			for i, tr := range all {
				if tr.f == nil || !strings.HasPrefix(tr.tp.Expect.Fail, "asm-") {
					continue
				}
				if _, has := tr.tp.Params["layout"]; !has {
					continue
				}
				if ok, _ := judgeTape(tr.tp, outcomes[i]); ok {
					continue
				}
				cp := *tr.tp
				cp.Params = map[string]int{}
				for k, v := range tr.tp.Params {
					cp.Params[k] = v
				}
				cp.Params["layout"] = layout
				tps = append(tps, &cp)
				idxs = append(idxs, i)
			}
			if len(tps) == 0 {
				break
			}
			outs, err := replayTapes(tps, tps[0].Pkg, tps[0].Tags, &replayLog)
			if err != nil {
				fmt.Println("REPLAY-ERROR:", err)
				break
			}
			for n, i := range idxs {
				if ok, _ := judgeTape(tps[n], outs[n]); ok {
					outcomes[i] = outs[n]
					all[i].tp = tps[n]
				}
			}
		}
	}

	violations := 0
	mismatches := 0
	validated := 0
	var samples []interface{}
	knownPrinted := map[string]bool{}
	os.MkdirAll(filepath.Join(verifDir(), "replays", prop), 0o755)
	for i, tr := range all {
		if !replayOK {
			break
		}
		ok, why := judgeTape(tr.tp, outcomes[i])
		if def.Dual && tr.f != nil {
			ok, why = judgeDual(tr.tp, outcomes[i], dualOutcomes[i])
		}
		if tr.f == nil {
			// witness
			if ok {
				validated++
				if len(samples) < 4 {
					samples = append(samples, map[string]interface{}{"kind": "reachability witness replayed natively", "job": tr.tp.Job, "label": tr.tp.Expect.Reach, "inputs": compactInputs(tr.tp), "notes": tr.tp.Expect.Notes})
				}
			} else {
				mismatches++
				fmt.Printf("ENGINE-MISMATCH job=%s witness: %s\n", tr.tp.Job, why)
			}
			continue
		}
		// failure tape
		if strings.HasPrefix(tr.tp.Expect.Fail, "unwind") && !ok {
			inconclusive = append(inconclusive, tr.tp.Job+": loop bound reached but native run terminates: "+why)
			continue
		}
		schedOnly := false
		if !ok && tr.tp.Conc && engineReplayed[tr.tp] {
			// reproduced by the executor on the real code under the recorded schedule, but not by
			// the native runs: the Go scheduler did not produce that interleaving
			ok, schedOnly = true, true
		}
		if !ok {
			mismatches++
			p := saveTape(prop, tr.tp, "mismatch")
			fmt.Printf("ENGINE-MISMATCH job=%s assertion=%q: %s (tape %s)\n", tr.tp.Job, tr.f.ID, why, p)
			continue
		}
		validated++
		if tr.f.Known != "" {
			if !knownPrinted[tr.f.Known] {
				knownPrinted[tr.f.Known] = true
				what := tr.f.Known
				for _, kf := range known.Findings {
					if kf.Class == tr.f.Known {
						what = kf.Class + ": " + kf.What
					}
				}
				p := saveTape(prop, tr.tp, "known")
				fmt.Printf("KNOWN-FINDING: property=%s %s (assertion %q, replay %s)\n", prop, what, tr.f.ID, p)
			}
			continue
		}
		violations++
		p := saveTape(prop, tr.tp, "violation")
		fmt.Printf("VIOLATION property=%s replay=%s\n", prop, p)
		fmt.Printf("  job=%s assertion=%q inputs=%s native: fail=%q panic=%q hang=%v crash=%v\n", tr.tp.Job, tr.f.ID, compactInputs(tr.tp), outcomes[i].Fail, oneLine(outcomes[i].Panic), outcomes[i].Hang, outcomes[i].Crash)
		if schedOnly {
			fmt.Printf("  schedule-dependent: reproduced by the executor's replay of the recorded schedule on the real code; %d native runs under the Go scheduler did not produce that interleaving\n", concNativeAttempts+1)
		}
		if len(samples) < 8 {
			samples = append(samples, map[string]interface{}{"kind": "counterexample replayed natively", "job": tr.tp.Job, "assertion": tr.f.ID, "inputs": compactInputs(tr.tp)})
		}
	}
	if !replayOK {
		inconclusive = append(inconclusive, "native replay could not be built/run")
	}
	if s.stoppedEarly {
		fmt.Printf("NOTE: exploration stopped early after %d counterexamples\n", s.failures)
	}
	if s.timedOut {
		inconclusive = append(inconclusive, fmt.Sprintf("exploration budget of %v used up before all jobs finished", s.budget))
	}
	for id, n := range otherProp {
		fmt.Printf("NOTE: %d failure(s) of assertion %q were found; it belongs to another property's check and is reported there\n", n, id)
	}
	for _, inc := range inconclusive {
		fmt.Println("INCONCLUSIVE:", oneLine(inc))
	}

	// ---- evidence ----
	var funcs []string
	for f := range tot.Funcs {
		if strings.Contains(f, "pierrec/lz4") || strings.HasPrefix(f, "io.") || strings.HasPrefix(f, "(*io.") || strings.HasPrefix(f, "(*bytes.") || strings.HasPrefix(f, "errors.") {
			funcs = append(funcs, strings.ReplaceAll(f, "github.com/pierrec/lz4/v4", "lz4"))
		}
	}
	sort.Strings(funcs)
	jobSummaries := []interface{}{}
	for _, j := range jobs {
		if len(jobSummaries) < 400 {
			jobSummaries = append(jobSummaries, map[string]interface{}{"job": j.ID, "params": j.Params, "paths": j.res.Paths, "ends": j.res.EndCounts, "obligations": j.res.Obligations + (j.res.Asserts - j.res.Obligations), "queries": j.res.Solver.Queries})
		}
	}
	if len(samples) == 0 {
		samples = append(samples, map[string]interface{}{"kind": "none replayed", "note": "no witness available"})
	}
	var asmInfo interface{}
	for _, w := range s.worlds {
		if w.asm != nil {
			asmInfo = map[string]interface{}{"text": "·decodeBlock (decode_amd64.s)", "instructions": w.asm.NumInstrs()}
		}
	}
	states := tot.Paths
	if states < 1 {
		states = 1
	}
	transitions := tot.Branches
	if transitions < 1 {
		transitions = 1
	}
	ev := map[string]interface{}{
		"property_id": prop,
		"tier":        tier,
		"seed":        seed,
		"level":       "model_checking",
		"coverage": map[string]interface{}{
			"states":                        states,
			"transitions":                   transitions,
			"traces_validated_against_impl": validated,
			"samples":                       samples,
			"explanation":                   "bounded symbolic execution of the real code (go/ssa, and decode_amd64.s where used) with SMT verdicts; states = symbolic paths explored, transitions = symbolic branch/value decisions",
			"paths":                         tot.Paths,
			"path_ends":                     tot.EndCounts,
			"assertions_reached":            tot.Asserts,
			"obligations":                   tot.Asserts,
			"discharged":                    tot.Discharged + (tot.Asserts - tot.Obligations),
			"discharged_by_solver":          tot.Discharged,
			"discharged_by_normalisation":   tot.Asserts - tot.Obligations,
			"instructions_interpreted":      tot.Steps,
			"functions_encoded":             funcs,
			"source_tree":                   sourceTreeID(),
			"asm_encoded":                   asmInfo,
			"bounds":                        def.Bounds(tier),
			"outside_bounds":                def.Outside,
			"queries":                       map[string]interface{}{"total": tot.Solver.Queries, "sat": tot.Solver.Sat, "unsat": tot.Solver.Unsat, "unknown": tot.Solver.Unknown, "errors": tot.Solver.Errors},
			"solver":                        "z3 5.1.0 (z3-new -in, incremental push/pop, 300 ms first attempt) with fallback to fresh non-incremental z3 5.1.0 / z3 4.8.12 processes under the tier timeout",
			"solver_s":                      round2(tot.Solver.Time.Seconds()),
			"max_query_s":                   round2(tot.Solver.MaxQuery.Seconds()),
			"explore_wall_s":                round2(exploreWall.Seconds()),
			"jobs":                          jobSummaries,
			"events":                        tot.Events,
			"inconclusive":                  inconclusive,
			"engine_mismatches":             mismatches,
			"known_findings_hit":            keys(knownPrinted),
			"cross_solver":                  map[string]interface{}{"obligations_rechecked": s.crossDone, "agree": s.crossAgree, "disagree": s.crossDisagree, "unknown": s.crossUnknown, "solvers": "z3 4.8.12, cvc5 1.0 (fresh processes, standalone scripts; thorough tier only)"},
			"max_allocation_cells":          tot.MaxAlloc,
			"max_allocation_site":           tot.MaxAllocSite,
		},
		"assumptions": def.Assumptions,
		"wall_s":      round2(time.Since(t0).Seconds()),
		"violations":  violations,
	}
	os.MkdirAll(filepath.Join(verifDir(), "evidence"), 0o755)
	b, _ := json.MarshalIndent(ev, "", " ")
	os.WriteFile(filepath.Join(verifDir(), "evidence", prop+".json"), b, 0o644)

	fmt.Printf("%s tier=%s jobs=%d paths=%d assertions=%d (solver-discharged %d, by normalisation %d) queries=%d (sat %d unsat %d unknown %d) solver=%.1fs wall=%.1fs validated=%d violations=%d known=%d inconclusive=%d mismatches=%d\n",
		prop, tier, len(jobs), tot.Paths, tot.Asserts, tot.Discharged, tot.Asserts-tot.Obligations, tot.Solver.Queries, tot.Solver.Sat, tot.Solver.Unsat, tot.Solver.Unknown, tot.Solver.Time.Seconds(), time.Since(t0).Seconds(), validated, violations, len(knownPrinted), len(inconclusive), mismatches)
	if os.Getenv("VERIF_REPLAYLOG") != "" {
		fmt.Println(replayLog.String())
	}
	if s.crossDisagree > 0 {
		fmt.Println("ENGINE-MISMATCH solvers disagree:", s.crossNote)
		mismatches++
	}
	switch {
	case violations > 0:
		return 1
	case mismatches > 0:
		return 3
	case len(inconclusive) > 0:
		return 2
	}
	return 0
}

func judgeDual(tp *Tape, a, b Outcome) (bool, string) {
	// the two build configurations must disagree on an observable (fail/notes) for a C12 violation
	if a.Missing || b.Missing {
		return false, "missing native outcome in one configuration"
	}
	if a.Crash != b.Crash || a.Hang != b.Hang || (a.Panic != "") != (b.Panic != "") {
		return true, ""
	}
	for k, v := range a.Notes {
		if w, ok := b.Notes[k]; ok && w != v {
			return true, ""
		}
	}
	if a.Fail != b.Fail {
		return true, ""
	}
	return false, "both build configurations produce identical observations natively"
}

func oneLine(s string) string {
	s = strings.ReplaceAll(s, "\n", " | ")
	if len(s) > 600 {
		s = s[:600] + "…"
	}
	return s
}

func keys(m map[string]bool) []string {
	out := []string{}
	for k := range m {
		out = append(out, k)
	}
	sort.Strings(out)
	return out
}

func round2(f float64) float64 { return float64(int(f*100+0.5)) / 100 }

func compactInputs(tp *Tape) string {
	var sb strings.Builder
	fmt.Fprintf(&sb, "params=%v ", tp.Params)
	// group consecutive u8 inputs as hex
	i := 0
	for i < len(tp.Inputs) {
		e := tp.Inputs[i]
		if e.Kind == "u8" {
			base := strings.TrimRight(e.Name, "0123456789")
			sb.WriteString(strings.TrimSuffix(base, "_") + "=")
			j := i
			for j < len(tp.Inputs) && tp.Inputs[j].Kind == "u8" && strings.TrimRight(tp.Inputs[j].Name, "0123456789") == base {
				fmt.Fprintf(&sb, "%02x", tp.Inputs[j].V)
				j++
			}
			sb.WriteString(" ")
			i = j
			continue
		}
		if e.Kind == "arr" {
			fmt.Fprintf(&sb, "%s={%d entries} ", e.Name, len(e.Entries))
		} else {
			fmt.Fprintf(&sb, "%s=%d ", e.Name, e.V)
		}
		i++
	}
	s := sb.String()
	if len(s) > 700 {
		s = s[:700] + "…"
	}
	return strings.TrimSpace(s)
}

func saveTape(prop string, tp *Tape, kind string) string {
	b, _ := json.MarshalIndent(tp, "", " ")
	h := sha1.Sum(b)
	p := filepath.Join(verifDir(), "replays", prop, fmt.Sprintf("%s-%s-%x.json", kind, sanitize(tp.Job), h[:4]))
	os.WriteFile(p, b, 0o644)
	return p
}

// cmdReplay replays a saved tape natively and prints the outcome.
func cmdReplay(path string) int {
	b, err := os.ReadFile(path)
	if err != nil {
		fmt.Fprintln(os.Stderr, err)
		return 2
	}
	var tp Tape
	if err := json.Unmarshal(b, &tp); err != nil {
		fmt.Fprintln(os.Stderr, err)
		return 2
	}
	var log bytes.Buffer
	outs, err := replayTapes([]*Tape{&tp}, tp.Pkg, tp.Tags, &log)
	if err != nil {
		fmt.Fprintln(os.Stderr, err)
		return 2
	}
	ob, _ := json.MarshalIndent(outs[0], "", " ")
	fmt.Printf("tape: job=%s harness=%s %s\nexpected: fail=%q reach=%q\nnative outcome: %s\n", tp.Job, tp.Harness, compactInputs(&tp), tp.Expect.Fail, tp.Expect.Reach, ob)
	ok, why := judgeTape(&tp, outs[0])
	if ok && tp.Kind != "witness" {
		fmt.Printf("VIOLATION property=%s replay=%s\n", tp.Property, path)
		return 1
	}
	if !ok {
		fmt.Println("not reproduced:", why)
	}
	return 0
}

// ---------- helpers for job tables ----------

func mkJob(id, harness, pkg, tags string, params map[string]int) *Job {
	return &Job{ID: id, Harness: harness, Pkg: pkg, Tags: tags, Params: params}
}

func P(kv ...interface{}) map[string]int {
	m := map[string]int{}
	for i := 0; i+1 < len(kv); i += 2 {
		m[kv[i].(string)] = kv[i+1].(int)
	}
	return m
}

func pstr(m map[string]int) string {
	var ks []string
	for k := range m {
		ks = append(ks, k)
	}
	sort.Strings(ks)
	var sb strings.Builder
	for _, k := range ks {
		fmt.Fprintf(&sb, "%s%d", k, m[k])
	}
	return sb.String()
}

func seedFromEnv() int {
	s, _ := strconv.Atoi(os.Getenv("VERIF_SEED"))
	return s
}
