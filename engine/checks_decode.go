package main

import "fmt"

// Job tables for the block-decoder properties C03, C04, C12.

type decShape struct{ ns, l1, m1, l2, m2, t, cut, nd, nk, nildst, capml, offwin int }

func decodeShapes(tier string) []decShape {
	var out []decShape
	seen := map[decShape]bool{}
	add := func(s decShape) {
		if s.nd < 0 || seen[s] {
			return
		}
		seen[s] = true
		out = append(out, s)
	}
	thorough := tier == "thorough"
	// Family A: arbitrary bytes, every destination length up to Nd, no caps.
	Ns, Nd := 6, 12
	if thorough {
		Ns, Nd = 7, 16
	}
	for ns := 0; ns <= Ns; ns++ {
		for _, nk := range []int{0, 1, 3} {
			for nd := 0; nd <= Nd; nd++ {
				if !thorough && ns >= 5 && (nd%3 != 0 || nk == 1) {
					continue
				}
				if thorough && ns >= 7 && (nd%4 != 0 || nk != 0) {
					continue
				}
				add(decShape{ns, -1, 0, -1, 0, -1, 0, nd, nk, 0, 0, 0})
			}
		}
		add(decShape{ns, -1, 0, -1, 0, -1, 0, 0, 0, 1, 0, 0}) // nil destination
		add(decShape{ns, -1, 0, -1, 0, -1, 0, 0, 3, 1, 0, 0})
	}
	capml, offwin := 24, 18
	if thorough {
		capml, offwin = 32, 26
	}
	l1s := []int{0, 1, 13, 14, 15, 16, 17, 30, 48, 49}
	ts := []int{-1, 0, 17, 33}
	if thorough {
		ts = []int{-1, 0, 5, 16, 17, 33, 49}
	}
	// Family S1: one shaped sequence + final literal run of t bytes.
	for _, l1 := range l1s {
		for _, m1 := range []int{0, 1} {
			if !thorough && m1 == 1 && l1 != 0 && l1 != 14 && l1 != 15 && l1 != 17 && l1 != 49 {
				continue
			}
			for _, t := range ts {
				L := l1
				if t > 0 {
					L += t
				}
				nds := []int{L + 4, L + 5, L + 18, L + 19, L + 32, L + 33}
				if thorough {
					nds = append(nds, L, L+17, L+31, L+34)
				}
				for _, nd := range nds {
					add(decShape{0, l1, m1, -1, 0, t, 0, nd, 0, 0, capml, offwin})
					if nd == L+5 || nd == L+33 || (thorough && nd == L+19) {
						add(decShape{0, l1, m1, -1, 0, t, 0, nd, 3, 0, capml, offwin})
					}
				}
				if t >= 16 || t == -1 {
					add(decShape{0, l1, m1, -1, 0, t, 0, 0, 0, 1, capml, offwin}) // nil destination
				}
			}
		}
	}
	// Family S2: two shaped sequences + final run (quick: a selection).
	l2s := []int{0, 1, 14, 15, 17}
	for _, l1 := range []int{0, 1, 14, 15, 17} {
		for _, l2 := range l2s {
			for _, t := range []int{-1, 0, 16, 20} {
				if !thorough && (l1+l2)%2 == 1 && t != 20 {
					continue
				}
				L := l1 + l2
				if t > 0 {
					L += t
				}
				for _, nd := range []int{L + 8, L + 23, L + 40} {
					if thorough {
						add(decShape{0, l1, 0, l2, 0, t, 0, nd, 0, 0, 8, 4})
					} else {
						add(decShape{0, l1, 0, l2, 0, t, 0, nd, 0, 0, 5, 2})
					}
				}
			}
		}
	}
	// Family S3: two shaped sequences over a dictionary: the first match may start in the
	// dictionary and run into the block (both memmove sites of the straddling copy), the second
	// sequence then starts 17..40 bytes before the end of dst with enough source left for the
	// wide-copy shortcut.
	for _, l1 := range []int{0, 1} {
		for _, l2 := range []int{0, 1, 12, 14} {
			for _, t := range []int{0, 3, 17} {
				if l2 < 12 && t < 17 {
					continue // the wide-copy shortcut needs 17 source bytes after the token
				}
				L := l1 + l2 + t
				nds := []int{L + 8, L + 23}
				if thorough {
					nds = []int{L + 4, L + 8, L + 12, L + 23, L + 40}
				}
				for _, nd := range nds {
					add(decShape{0, l1, 0, l2, 0, t, 0, nd, 3, 0, 8, 14})
					if thorough {
						add(decShape{0, l1, 0, l2, 0, t, 0, nd, 1, 0, 8, 14})
					}
				}
			}
		}
	}
	// Truncations of shaped blocks (every cut 1..6 of a few shapes).
	for _, l1 := range []int{0, 14, 15, 17} {
		for cut := 1; cut <= 6; cut++ {
			add(decShape{0, l1, 0, -1, 0, 3, cut, l1 + 30, 0, 0, capml, offwin})
			add(decShape{0, l1, 1, -1, 0, -1, cut, l1 + 30, 0, 0, capml, offwin})
		}
	}
	return out
}

func decodeJobs(tier, harness string, tagsets []string) []*Job {
	var jobs []*Job
	for _, tags := range tagsets {
		cfg := "asm"
		if tags != "verif" {
			cfg = "go"
		}
		for _, s := range decodeShapes(tier) {
			p := P("ns", s.ns, "l1", s.l1, "m1ext", s.m1, "l2", s.l2, "m2ext", s.m2, "t", s.t, "cut", s.cut, "nd", s.nd, "nk", s.nk, "nildst", s.nildst, "layout", 0, "capml", s.capml, "offwin", s.offwin)
			j := mkJob(fmt.Sprintf("%s-%s-s%d-l%d.%d-l%d.%d-t%d-c%d-d%d-k%d-n%d", harness[2:], cfg, s.ns, s.l1, s.m1, s.l2, s.m2, s.t, s.cut, s.nd, s.nk, s.nildst), harness, "internal/lz4block", tags, p)
			j.MaxEnum = 300
			j.Unwind = 2000
			jobs = append(jobs, j)
		}
	}
	return jobs
}

func decodeBounds(tier string) []string {
	Ns, Nd := 6, 12
	capb := "in the shaped families valid matches are bounded to length <= 24 and offsets to <= 18 or within 2 of the farthest reachable byte (assumed; longer/other matches only in family A)"
	if tier == "thorough" {
		Ns, Nd = 7, 16
		capb = "in the shaped families valid matches are bounded to length <= 32 and offsets to <= 26 or within 2 of the farthest reachable byte (assumed; longer/other matches only in family A)"
	}
	return []string{
		capb,
		fmt.Sprintf("family A: every source of 0..%d arbitrary bytes x every destination length 0..%d (prior contents and %d bytes of spare capacity arbitrary) x dictionary of 0/1/3 arbitrary bytes; nil destination", Ns, Nd, 24),
		"family S: shaped blocks = [sequence with l1 in {0,1,13,14,15,16,17,30,48,49} literal bytes, symbolic 16-bit offset, symbolic match nibble or 15+one extension byte] [optional second sequence] [optional literals-only run of t bytes] minus 0..6 truncated bytes; two-sequence blocks also over a 3-byte dictionary (first match starting in the dictionary and running into the block; matches <= 8 bytes, offsets <= 14 or reaching the dictionary); destination lengths around the decoded size (+4,+5,+18,+19,+32,+33,...); every field value and literal byte symbolic",
		fmt.Sprintf("%d jobs per decoder build; both builds (amd64 assembly via asmsym, portable Go via gosym)", len(decodeShapes(tier))),
	}
}

var decodeOutside = []string{
	"sources with more arbitrary bytes than the bound that are not of the shaped family; more than one shaped prefix/suffix",
	"dictionaries longer than 3 bytes",
	"address-space wrap-around (buffers are placed at fixed addresses 0xc0001.. / 0xc0002.. / 0xc0003.., nil = 0)",
	"ARM and ARM64 assembly decoders (not encoded)",
}

var decodeAssumptions = []string{
	"runtime·memmove is modelled as an exact overlapping-safe byte copy that clobbers every register except SP",
	"reference decoder harness/ref/block.go.tmpl (accepts a block ending right after a match, as the package documents)",
	"encoding/binary.LittleEndian accessors are modelled as exact byte concatenations",
}

func init() {
	c03 := map[string]bool{"src-unmodified": true, "dict-unmodified": true, "no-write-beyond-len": true, "count-in-range": true, "error-count-zero": true}
	checkDefs["C03"] = &CheckDef{
		Property: "C03",
		Jobs:     func(tier string) []*Job { return decodeJobs(tier, "H_decode", []string{"verif", "verif,noasm"}) },
		Bounds:   decodeBounds, Outside: decodeOutside, Assumptions: decodeAssumptions,
		Filter: func(id string) bool {
			return c03[id] || hasPrefix(id, "asm-") || hasPrefix(id, "no-panic") || hasPrefix(id, "unwind")
		},
	}
	checkDefs["C04"] = &CheckDef{
		Property: "C04",
		Jobs:     func(tier string) []*Job { return decodeJobs(tier, "H_decode", []string{"verif", "verif,noasm"}) },
		Bounds:   decodeBounds, Outside: decodeOutside, Assumptions: decodeAssumptions,
		Filter: func(id string) bool {
			return !c03[id] && !hasPrefix(id, "asm-") && !hasPrefix(id, "no-panic") && !hasPrefix(id, "unwind")
		},
	}
	checkDefs["C12"] = &CheckDef{
		Property: "C12",
		Jobs:     func(tier string) []*Job { return decodeJobs(tier, "H_decode_cmp", []string{"verif,noasm"}) },
		Bounds:   decodeBounds, Outside: decodeOutside, Assumptions: decodeAssumptions,
		Dual:     true,
		Filter: func(id string) bool {
			return hasPrefix(id, "same-")
		},
	}
}

func hasPrefix(s, p string) bool { return len(s) >= len(p) && s[:len(p)] == p }
