package main

import "fmt"

// C08: the concurrent pipelines. The same harness runs also feed C14 (bytes independent of the
// concurrency level and schedule), C15 (faults under concurrency) and C07 (hostile streams under
// concurrency); each property's Filter picks its assertion ids.

func cmk(harness string, delays int, p map[string]int) *Job {
	j := fmk(harness, p)
	j.ID = fmt.Sprintf("%s-d%d", j.ID, delays)
	j.Delays = delays
	return j
}

func concWriterJobs(tier string) []*Job {
	var jobs []*Job
	d := 2
	nums := []int{2, 3}
	if tier == "thorough" {
		d = 3
		nums = []int{2, 3, 4}
	}
	base := func(num, shape, bc, cc, fail, rfail int) map[string]int {
		return P("num", num, "shape", shape, "n1", 20, "n2", 10, "fail", fail, "rfail", rfail, "handler", 1, "bc", bc, "cc", cc, "legacy", 0)
	}
	shapes := []int{0, 1, 2, 3, 4, 5, 6, 7, 8, 10, 11, 12}
	for _, num := range nums {
		for i, sh := range shapes {
			bc, cc := (i+num)%2, 1-(i+num)%2
			dd := d
			if tier == "thorough" && (sh == 8 || sh == 3) {
				dd = 2 // three blocks / two frames: the schedule space of 3 delays does not fit the budget
			}
			jobs = append(jobs, cmk("H_conc_w", dd, base(num, sh, bc, cc, -1, -1)))
			if tier == "thorough" {
				jobs = append(jobs, cmk("H_conc_w", 2, base(num, sh, 1-bc, 1-cc, -1, -1)))
			}
		}
	}
	// empty chunks: ReadFrom from an empty source (alone and after a Write), an empty Write
	for _, num := range nums {
		for _, x := range [][3]int{{5, 0, 10}, {6, 20, 0}, {6, 0, 0}, {1, 0, 10}, {1, 20, 0}, {8, 0, 10}} {
			p := base(num, x[0], 1, 1, -1, -1)
			p["n1"], p["n2"] = x[1], x[2]
			jobs = append(jobs, cmk("H_conc_w", d, p))
		}
	}
	// legacy frames written concurrently (8 MiB block buffers, no checksums, no end mark)
	for _, sh := range []int{0, 1, 3, 6} {
		p := base(2, sh, 0, 0, -1, -1)
		p["legacy"] = 1
		jobs = append(jobs, cmk("H_conc_w", d, p))
	}
	// one full 64 KiB block and a tail through Write (the only way to a block without Flush)
	big := cmk("H_conc_w", 1, base(2, 9, 1, 1, -1, -1))
	jobs = append(jobs, big, cmk("H_conc_w", 1, base(2, 13, 0, 1, -1, -1)))
	if tier == "thorough" {
		jobs = append(jobs, cmk("H_conc_w", 2, base(3, 9, 0, 1, -1, -1)))
	}
	return jobs
}

func concWriterFaultJobs(tier string) []*Job {
	var jobs []*Job
	d := 1
	nums := []int{2}
	if tier == "thorough" {
		d = 2
		nums = []int{2, 3}
	}
	for _, num := range nums {
		for _, sh := range []int{0, 1, 3, 6, 8, 10} {
			maxFail := 5
			if sh == 8 {
				maxFail = 7
			}
			for fail := 0; fail <= maxFail; fail++ {
				jobs = append(jobs, cmk("H_conc_w", d, P("num", num, "shape", sh, "n1", 20, "n2", 10, "fail", fail, "rfail", -1, "handler", 1, "bc", fail%2, "cc", 1, "legacy", 0)))
			}
		}
		for _, sh := range []int{5, 6} {
			for rfail := 0; rfail <= 1; rfail++ {
				jobs = append(jobs, cmk("H_conc_w", d+1, P("num", num, "shape", sh, "n1", 20, "n2", 10, "fail", -1, "rfail", rfail, "handler", 1, "bc", 1, "cc", 1, "legacy", 0)))
			}
		}
	}
	return jobs
}

func concReaderJobs(tier string) []*Job {
	var jobs []*Job
	d := 2
	nums := []int{2, 3}
	ks := []int{1, 2, 3}
	if tier == "thorough" {
		d = 3
		nums = []int{2, 3, 4}
		ks = []int{1, 2, 3, 4}
	}
	rp := func(num, k, mode, dmg, cut, reuse, legacy, bc, cc int) map[string]int {
		return P("num", num, "k", k, "mode", mode, "dmg", dmg, "cut", cut, "handler", 1, "reuse", reuse, "legacy", legacy, "bc", bc, "cc", cc, "wfail", -1, "mask", 0x55)
	}
	for _, num := range nums {
		for _, k := range ks {
			for mode := 0; mode <= 2; mode++ {
				dd := d
				if tier == "thorough" && k >= 3 {
					dd = 2
				}
				jobs = append(jobs, cmk("H_conc_r", dd, rp(num, k, mode, 0, 0, 0, 0, (k+mode)%2, 1)))
			}
		}
	}
	// damaged frames: truncated at / byte flipped at `cut`, source failing at call `cut`
	// (a 2-block frame with both checksums is 7+4+11+4 + 4+14+4 + 4+4 = 56 bytes)
	cuts := []int{5, 8, 12, 17, 24, 27, 31, 40, 47, 52}
	if tier == "thorough" {
		cuts = nil
		for c := 1; c < 56; c++ {
			cuts = append(cuts, c)
		}
	}
	for _, cut := range cuts {
		for _, mode := range []int{0, 2} {
			if tier != "thorough" && (cut+mode)%4 == 1 {
				continue
			}
			jobs = append(jobs, cmk("H_conc_r", 2, rp(2, 2, mode, 1, cut, 0, 0, 1, 1)))
			jobs = append(jobs, cmk("H_conc_r", 2, rp(2, 2, mode, 2, cut, 0, 0, 1, 1)))
			// without a content checksum nothing after the end mark can catch a wrongly clean end
			jobs = append(jobs, cmk("H_conc_r", 2, rp(2, 2, mode, 1, cut, 0, 0, cut%2, 0)))
			jobs = append(jobs, cmk("H_conc_r", 2, rp(2, 2, mode, 2, cut, 0, 0, 1, 0)))
		}
	}
	for cut := 0; cut <= 7; cut++ {
		jobs = append(jobs, cmk("H_conc_r", 2, rp(2, 2, cut%3, 3, cut, 0, 0, 1, 1)))
	}
	// every single-bit flip of the low byte of each block-size word (a block that claims a few
	// bytes more or less swallows or exposes the fields after it), frames without content checksum
	for _, bc := range []int{0, 1} {
		for _, k := range []int{1, 2} {
			pos := []int{7}
			if k == 2 {
				pos = append(pos, 7+4+9+4*bc)
			}
			for _, p := range pos {
				for bit := 0; bit < 8; bit++ {
					if tier != "thorough" && bit >= 5 {
						continue
					}
					q := rp(2, k, (bit+k)%3, 2, p, 0, 0, bc, 0)
					q["mask"] = 1 << bit
					jobs = append(jobs, cmk("H_conc_r", 1, q))
				}
			}
		}
	}
	// Reset and reuse after a clean end and after an error
	for _, dmg := range []int{0, 1, 2} {
		for _, mode := range []int{0, 2} {
			dd := 1
			if tier == "thorough" {
				dd = 2
			}
			jobs = append(jobs, cmk("H_conc_r", dd, rp(2, 2, mode, dmg, 24, 1, 0, 1, 1)))
		}
	}
	// WriteTo into a destination that fails at call 0..2, then Reset and reuse
	for wfail := 0; wfail <= 2; wfail++ {
		dd := 1
		if tier == "thorough" {
			dd = 2
		}
		p := rp(2, 3, 2, 0, 0, 1, 0, 1, 1)
		p["wfail"] = wfail
		jobs = append(jobs, cmk("H_conc_r", dd, p))
	}
	// a legacy frame: the Reader silently falls back to sequential operation
	jobs = append(jobs, cmk("H_conc_r", 1, rp(2, 1, 0, 0, 0, 1, 1, 0, 0)))
	return jobs
}

// concReaderLifeJobs: the C17 Reader call sequences (Read small/big/empty, WriteTo, Size, Reset
// onto the other frame, also before the end of the stream) on a concurrent Reader.
func concReaderLifeJobs(tier string) []*Job {
	t := func(L, trail, sizeopt int) map[string]int {
		return P("num", 2, "L", L, "trail", trail, "n", 3, "period", 0, "bs", 4, "bc", 1, "cc", 1, "sizeopt", sizeopt, "level", 0, "legacy", 0, "deliv", 2, "k", 1)
	}
	if tier == "thorough" {
		return []*Job{cmk("H_life_rc", 1, t(4, 3, 0)), cmk("H_life_rc", 2, t(3, 0, 1))}
	}
	return []*Job{cmk("H_life_rc", 1, t(3, 3, 0)), cmk("H_life_rc", 1, t(3, 0, 1))}
}

func concStreamJobs(tier string) []*Job {
	var jobs []*Job
	type sn struct{ shape, n int }
	list := []sn{{4, 4}, {4, 5}, {4, 8}, {4, 9}, {5, 8}, {5, 9}, {1, 6}, {0, 7}}
	if tier == "thorough" {
		list = []sn{{4, 4}, {4, 5}, {4, 6}, {4, 7}, {4, 8}, {4, 9}, {4, 10}, {5, 8}, {5, 9}, {5, 10}, {1, 6}, {1, 7}, {0, 7}, {0, 8}, {2, 7}, {3, 8}}
	}
	for _, x := range list {
		for _, rb := range []int{1, 2} {
			jobs = append(jobs, cmk("H_stream_c", 1, P("num", 2, "shape", x.shape, "n", x.n, "rb", rb, "rsrc", (x.n+rb)%4)))
		}
	}
	return jobs
}

var concAssumptions = append([]string{
	"goroutines, channels, sync.Mutex, sync.WaitGroup and sync.Pool are modelled by the executor (conc.go): one goroutine runs at a time, a context switch can happen before go, send, receive, close, Lock, Unlock, Done, Wait and the harness callbacks, and whenever the running goroutine blocks or ends; wait queues are FIFO",
	"the schedule is a vector of symbolic inputs: non-preemptive round robin by default, each scheduling point may skip d_k candidates with the d_k of a path summing to at most the delay bound; the solver enumerates the feasible delay vectors",
	"data races are found by a happens-before check (vector clocks; edges: go, channel send/receive/close, unbuffered rendezvous both ways, Unlock->Lock, Done->Wait, Pool.Put->Get) over every memory access of the explored runs, so a race is reported even when the explored schedules do not make it misbehave",
	"sync.Pool is a LIFO of the values Put so far (New otherwise); an access to a buffer that is in a pool is a failed obligation",
	"a goroutine that is only finishing (it has made its last synchronisation and does nothing observable) when Close returns or the end is reported is not counted as remaining: the obligations are no callback after that point and nothing left alive once everything runnable has run",
	"counterexamples are first re-executed by the executor on the real code under the recorded schedule, then run natively under the Go race detector (several attempts: the Go scheduler cannot be steered); a schedule-dependent counterexample that only the executor reproduces is reported as such",
}, frameAssumptions...)

func init() {
	checkDefs["C08"] = &CheckDef{Property: "C08",
		Jobs: func(tier string) []*Job {
			jobs := append(concWriterJobs(tier), concWriterFaultJobs(tier)...)
			jobs = append(jobs, concReaderJobs(tier)...)
			jobs = append(jobs, concReaderLifeJobs(tier)...)
			return append(jobs, concStreamJobs(tier)...)
		},
		Bounds: func(tier string) []string {
			d, nums := 2, "2, 3"
			if tier == "thorough" {
				d, nums = 3, "2, 3, 4"
			}
			return []string{
				fmt.Sprintf("Writer with ConcurrencyOption in {%s}, 64 KiB blocks, block/content checksum on/off, on-block-done callback installed; call sequences: Write Close | Write Flush Write Close | Write Flush Close | Write Close Reset Write Close | Write Close Close | ReadFrom Close | Write ReadFrom Close | Flush Close | Write Flush Write Flush Write Close | Write Flush Reset Write Close | Write Reset Write Close | Write Close Write Close | Write(64 KiB + 20) Close | ReadFrom(64 KiB + 20) Close; chunks of 20 and 10 concrete bytes (also empty chunks); four of the sequences also with LegacyOption", nums),
				fmt.Sprintf("every schedule with at most %d delays (writer faults and reuse: fewer, see job ids ...-dN) of the main goroutine, the ordering goroutine and the per-block goroutines", d),
				"writer faults: the sink failing at call 0..5 (0..7 for three blocks), the ReadFrom source failing at call 0..1",
				fmt.Sprintf("Reader with ConcurrencyOption in {%s} over frames of 1..3 (thorough 4) small blocks made by the sequential Writer; Read with 5-byte and 64 KiB buffers, WriteTo; truncation / byte flip at 10 (thorough: every) position(s) of the 2-block frame, with and without content checksum, source failing at call 0..7; every single-bit flip (quick: bits 0..4) of the low byte of each block-size word of 1- and 2-block frames without content checksum; Reset onto an intact frame after a clean end, after an error and after a WriteTo whose destination failed at call 0..2; legacy frame (sequential fallback); every sequence of 3 (thorough 4) calls of {Read small/big/empty, WriteTo, Size, Reset} including Reset before the end of the stream", nums),
				"hostile streams: 4..9 (thorough ..10) symbolic bytes after a valid header (and other H_stream shapes) read by a concurrent Reader, at most 1 delay",
				"obligations on every explored run: no data race (happens-before), no access to a pooled buffer, no deadlock, every call returns, nothing left alive after Close / end / error once runnable goroutines have run, no callback after Close / end, blocks in submission order, frame well-formed for the reference parser",
			}
		},
		Outside: []string{
			"schedules needing more delays than the bound; more than 3 blocks in flight; block sizes above 64 KiB; compressible multi-megabyte inputs",
			"preemption inside a stretch of code without synchronisation (irrelevant for race-free code; races themselves are caught by the happens-before check, not by interleaving the racing accesses)",
			"sync.Pool dropping values or handing them to another P (LIFO model only); memory-model effects weaker than sequential consistency",
			"a Reader abandoned before the end of the stream (the property does not cover it); CompressingReader",
		},
		Assumptions: concAssumptions,
		Filter: func(id string) bool {
			return hasPrefix(id, "conc-") || hasPrefix(id, "no-panic") || hasPrefix(id, "unwind")
		},
	}
}
