package main

import "fmt"

// Job tables for the frame-level properties (sequential: concurrency = 1).

type lcg struct{ s uint64 }

func (l *lcg) next(n int) int {
	l.s = l.s*6364136223846793005 + 1442695040888963407
	return int((l.s >> 33) % uint64(n))
}

func frameJobsFor(tier string, spec int) []*Job {
	jobs := frameJobs(tier)
	for _, j := range jobs {
		j.Params["spec"] = spec
	}
	return jobs
}

func frameJobs(tier string) []*Job {
	var jobs []*Job
	seen := map[string]bool{}
	add := func(p map[string]int) {
		id := "frame-" + pstr(p)
		if seen[id] {
			return
		}
		seen[id] = true
		j := mkJob(id, "H_frame", "", "verif,noasm", p)
		j.Unwind = 3000000
		jobs = append(jobs, j)
	}
	mk := func(n, period, bs, bc, cc, sizeopt, level, legacy, deliv, k, rb, rsrc int) map[string]int {
		return P("n", n, "period", period, "bs", bs, "bc", bc, "cc", cc, "sizeopt", sizeopt, "level", level, "legacy", legacy, "deliv", deliv, "k", k, "rb", rb, "rsrc", rsrc)
	}
	thorough := tier == "thorough"
	// full option matrix on a tiny input, one delivery/read-back shape each (rotating)
	r := &lcg{s: 12345}
	for bs := 4; bs <= 7; bs++ {
		for bc := 0; bc <= 1; bc++ {
			for cc := 0; cc <= 1; cc++ {
				for sizeopt := 0; sizeopt <= 1; sizeopt++ {
					for _, level := range []int{0, 1, 9} {
						for legacy := 0; legacy <= 1; legacy++ {
							if legacy == 1 && (bs != 4 || sizeopt == 1) && !thorough {
								continue
							}
							n := []int{0, 1, 5, 6}[r.next(4)]
							add(mk(n, 0, bs, bc, cc, sizeopt, level, legacy, r.next(9), r.next(n+1), r.next(5), r.next(4)))
						}
					}
				}
			}
		}
	}
	// every delivery x read-back x source-fragmentation shape on a fixed option set (and a rotating one)
	for deliv := 0; deliv <= 8; deliv++ {
		for rb := 0; rb <= 4; rb++ {
			for rsrc := 0; rsrc <= 3; rsrc++ {
				if !thorough && (deliv+rb+rsrc)%2 == 1 {
					continue
				}
				add(mk(6, 0, 4, 1, 1, 0, 0, 0, deliv, 2, rb, rsrc))
				add(mk(5, 0, 4+r.next(4), r.next(2), r.next(2), r.next(2), []int{0, 1, 9}[r.next(3)], 0, deliv, r.next(6), rb, rsrc))
			}
		}
		add(mk(6, 0, 4, 0, 0, 0, 0, 1, deliv, 3, deliv%5, deliv%4))
	}
	// compressible inputs (real compressed blocks), several splits
	ns := []int{40, 70}
	if thorough {
		ns = []int{24, 40, 70, 300}
	}
	for _, n := range ns {
		for _, period := range []int{1, 2, 3} {
			for _, level := range []int{0, 1} {
				if level == 1 && period == 3 {
					continue // HC on a 3-byte period: hash-summary queries the solvers do not finish in time
				}
				for _, deliv := range []int{0, 1, 2, 4, 8} {
					if deliv == 8 && n > 40 {
						continue
					}
					if !thorough && (period+level+deliv)%2 == 0 && deliv != 2 {
						continue
					}
					add(mk(n, period, 4+r.next(4), 1, 1, r.next(2), level, 0, deliv, []int{1, 17, n / 2, n - 1}[r.next(4)], r.next(5), r.next(4)))
				}
				add(mk(n, period, 4, 0, 0, 0, level, 1, 0, 0, r.next(5), 0))
			}
		}
	}
	// block-boundary inputs: 64 KiB blocks, concrete compressible filler with two symbolic tail bytes
	for bi, n := range []int{65535, 65536, 65537, 131073} {
		for _, deliv := range []int{0, 1, 4} {
			if !thorough && (bi+deliv)%2 == 1 {
				continue
			}
			add(mk(n, -1200, 4, 1, 1, 0, 0, 0, deliv, []int{1, 65535, 65536, 65537}[(bi+deliv)%4], []int{0, 2, 4, 3}[(bi+deliv)%4], 0))
		}
	}
	// a 256 KiB block holding incompressible bytes with an exact 64 KiB period (the distance an
	// offset cannot express), through Write and ReadFrom
	add(mk(131072+40, -65536, 5, 1, 1, 0, 0, 0, 0, 0, 2, 0))
	if thorough {
		add(mk(131072+40, -65536, 5, 0, 1, 0, 0, 0, 4, 0, 0, 0))
	}
	// an incompressible first block (stored raw at exactly the block size, straight from the caller's
	// buffer) followed by more data in the same Write call, with block checksums
	add(mk(65536+40, -65536, 4, 1, 1, 0, 0, 0, 0, 0, 2, 0))
	add(mk(65536+40, -65536, 4, 1, 0, 0, 0, 0, 1, 17, 0, 0))
	if thorough {
		add(mk(131072+40, -65536, 4, 1, 1, 0, 0, 0, 0, 0, 1, 0))
		add(mk(65536+40, -65536, 4, 0, 1, 0, 0, 0, 2, 65536, 4, 0))
	}
	// levels 2..8 (HC chain depths 1024..65536): a tiny all-symbolic input under rotating options and
	// a compressible input per level (thorough: both checksum settings, legacy, two periods)
	r2 := &lcg{s: 777}
	for level := 2; level <= 8; level++ {
		if thorough {
			for bc := 0; bc <= 1; bc++ {
				for cc := 0; cc <= 1; cc++ {
					n := []int{0, 1, 5, 6}[r2.next(4)]
					add(mk(n, 0, 4+r2.next(4), bc, cc, r2.next(2), level, 0, r2.next(9), r2.next(n+1), r2.next(5), r2.next(4)))
				}
			}
			add(mk(6, 0, 4, 0, 0, 0, level, 1, r2.next(9), 3, r2.next(5), r2.next(4)))
			for _, period := range []int{1, 2} {
				for _, n := range []int{40, 70} {
					add(mk(n, period, 4+r2.next(4), 1, 1, r2.next(2), level, 0, []int{0, 1, 2, 4}[r2.next(4)], []int{1, 17, n / 2, n - 1}[r2.next(4)], r2.next(5), r2.next(4)))
				}
			}
		} else {
			n := []int{0, 1, 5, 6}[r2.next(4)]
			add(mk(n, 0, 4+r2.next(4), r2.next(2), r2.next(2), r2.next(2), level, 0, r2.next(9), r2.next(n+1), r2.next(5), r2.next(4)))
			add(mk(40, 1+level%2, 4+r2.next(4), 1, 1, r2.next(2), level, 0, []int{0, 1, 2, 4}[r2.next(4)], []int{1, 17, 20, 39}[r2.next(4)], r2.next(5), r2.next(4)))
		}
	}
	// growing tiny inputs, all bytes symbolic
	N := 8
	if thorough {
		N = 12
	}
	for n := 0; n <= N; n++ {
		add(mk(n, 0, 4, 1, 1, 1, 0, 0, 2, n/2, n%5, n%4))
		add(mk(n, 0, 5, 0, 1, 0, 1, 0, 1, n/3, (n+1)%5, (n+2)%4))
	}
	return jobs
}

func frameBounds(tier string) []string {
	return []string{
		"option matrix: 4 block sizes x block checksum x content checksum x content size (symbolic 64-bit value) x level {Fast, Level1, Level9} x legacy (and Level2..Level8 each on a tiny and on a 40-byte (thorough 40/70) compressible input under rotating options), each on a tiny input (0..6 symbolic bytes) with a rotating delivery / read-back shape",
		"every delivery shape {one Write; Write|Write; Write|Flush|Write; Flush,Write,Flush,Flush; ReadFrom with 4 source fragmentation modes; byte-by-byte} x read-back {Read >= block size; Read 3-byte buffers; WriteTo; mixed 1/2/7/block+1; block-1} x source fragmentation {full; 1 byte; data+EOF; zero-length reads}",
		"compressible inputs of 40 and 70 bytes (thorough: 24..300) built from a symbolic period of 1..3 bytes: real compressed blocks, with splits",
		"131112 incompressible bytes with an exact 64 KiB period in one 256 KiB block (redundancy only at distance 65536)",
		"65576 (thorough also 131112) incompressible bytes with 64 KiB blocks and block checksums in one Write call (first block stored raw straight from the caller's slice); the Writer works on a private copy of the input, the comparison uses the original",
		"block-boundary inputs of 65535 / 65536 / 65537 / 131073 bytes with 64 KiB blocks (concrete compressible filler, last two bytes symbolic), split at 1 / 65535 / 65536 / 65537",
		"all input bytes symbolic otherwise; concurrency = 1; amd64 portable decoder",
	}
}

var frameOutside = []string{
	"concurrency != 1 (Writer and Reader goroutine pipelines are not encoded)",
	"256 KiB..4 MiB block boundaries; arbitrary content in block-size inputs (only two tail bytes are symbolic)",
	"levels 2..8 beyond the rotating-option jobs named above (they differ from Level1/Level9 only in the HC chain depth)",
}

var frameAssumptions = []string{
	"sync.Pool is modelled as a LIFO of explicitly Put values, New() otherwise; sync.Mutex as a no-op",
	"fmt.Errorf is modelled as an error wrapping its %w operand",
	"block hashes summarised as uninterpreted functions",
	"reference frame parser harness/ref/frame.go.tmpl (LZ4 frame format v1.6.x, legacy frames), reference block decoder, reference XXH32",
}

func init() {
	checkDefs["C02"] = &CheckDef{
		Property: "C02",
		Jobs: func(t string) []*Job {
			jobs := append(frameJobsFor(t, 0), concWriterJobs(t)...)
			for _, j := range concReaderJobs(t) {
				if j.Params["dmg"] == 0 && j.Params["reuse"] == 0 {
					jobs = append(jobs, j)
				}
			}
			return jobs
		},
		Bounds: func(t string) []string {
			return append(frameBounds(t), "concurrency: the 13 call sequences of the concurrent Writer (ConcurrencyOption 2, 3; thorough 4) read back by the real Reader, and frames of 1..3 (4) blocks read by a concurrent Reader through Read (small and block-size buffers) and WriteTo, under every schedule within the delay bound (see C08)")
		},
		Outside: frameOutside, Assumptions: append([]string{concAssumptions[0], concAssumptions[1]}, frameAssumptions...),
		Filter: func(id string) bool { return hasPrefix(id, "rt-") || hasPrefix(id, "no-panic") || hasPrefix(id, "unwind") },
	}
	checkDefs["C09"] = &CheckDef{
		Property: "C09",
		Jobs: func(t string) []*Job {
			// frames emitted by a Writer with a history (Reset with or without Close, Flush, rejected
			// Apply ...): every sequence of 3 (thorough 4) calls, judged by the same reference parser
			L := 3
			if t == "thorough" {
				L = 4
			}
			return append(frameJobsFor(t, 1), fmk("H_life_w", P("L", L, "bc", 0)), fmk("H_life_w", P("L", L, "bc", 1)))
		},
		Bounds: func(t string) []string {
			return append(frameBounds(t), "frames emitted after a history: every sequence of 3 (thorough 4) calls of {Apply, Write(2 symbolic bytes), ReadFrom(1 byte), Flush, Close, Reset(new sink), Reset(same sink)}; whenever Close succeeds the bytes emitted since the last Reset are one well-formed frame whose content is exactly what was written since that Reset")
		},
		Outside: frameOutside, Assumptions: frameAssumptions,
		Filter: func(id string) bool {
			return hasPrefix(id, "spec-") || id == "rt-writer-no-error" || id == "rt-options-accepted" || id == "w-close-one-frame" || id == "w-close-exactly-once-in-order" || id == "w-close-options-persist"
		},
	}
	_ = fmt.Sprint
}
