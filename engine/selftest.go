package main

// Translator validation: the executor is run as a plain interpreter on concrete
// inputs (tapes) and its observations (vfNote values, reached labels, failed
// assertion) are compared with a native run of the same harness on the same tape.

import (
	"bytes"
	"fmt"
	"math/rand"
)

func u8s(name string, bs []byte) []TapeEntry {
	out := make([]TapeEntry, len(bs))
	for i, b := range bs {
		out[i] = TapeEntry{Name: fmt.Sprintf("%s_%d", name, i), Kind: "u8", V: uint64(b)}
	}
	return out
}

// randBlock produces a (mostly valid) LZ4 block and sometimes mutates it.
func randBlock(r *rand.Rand, maxSeq int) []byte {
	var b []byte
	out := 0
	nseq := 1 + r.Intn(maxSeq)
	for s := 0; s < nseq; s++ {
		ll := []int{0, 1, 2, 5, 13, 14, 15, 16, 17, 20}[r.Intn(10)]
		last := s == nseq-1
		ml := 0
		if !last {
			ml = []int{4, 5, 8, 18, 19, 20, 30}[r.Intn(7)]
		}
		tok := byte(0)
		if ll >= 15 {
			tok = 0xF0
		} else {
			tok = byte(ll << 4)
		}
		if !last {
			if ml-4 >= 15 {
				tok |= 0x0F
			} else {
				tok |= byte(ml - 4)
			}
		}
		b = append(b, tok)
		if ll >= 15 {
			b = append(b, byte(ll-15))
		}
		for i := 0; i < ll; i++ {
			b = append(b, byte(r.Intn(256)))
		}
		out += ll
		if last {
			break
		}
		off := 1
		if out > 0 {
			off = 1 + r.Intn(out)
		}
		if r.Intn(10) == 0 {
			off = r.Intn(70000) & 0xFFFF
		}
		b = append(b, byte(off), byte(off>>8))
		if ml-4 >= 15 {
			b = append(b, byte(ml-4-15))
		}
		out += ml
	}
	switch r.Intn(5) {
	case 0:
		if len(b) > 0 {
			b[r.Intn(len(b))] = byte(r.Intn(256))
		}
	case 1:
		if len(b) > 1 {
			b = b[:len(b)-1-r.Intn(len(b)-1)]
		}
	}
	return b
}

func selftestJobs(seed int64, n int) []*Job {
	r := rand.New(rand.NewSource(seed))
	var jobs []*Job
	for i := 0; i < n; i++ {
		// decoder, both builds
		src := randBlock(r, 3)
		if i%7 == 0 {
			src = make([]byte, r.Intn(12))
			r.Read(src)
		}
		nd := r.Intn(80)
		nk := []int{0, 0, 3, 8}[r.Intn(4)]
		dict := make([]byte, nk)
		r.Read(dict)
		dst := make([]byte, nd+24)
		r.Read(dst)
		var fixed []TapeEntry
		fixed = append(fixed, u8s("src", src)...)
		fixed = append(fixed, u8s("dict", dict)...)
		fixed = append(fixed, u8s("dst", dst)...)
		for _, tags := range []string{"verif", "verif,noasm"} {
			p := P("ns", len(src), "l1", -1, "m1ext", 0, "l2", -1, "m2ext", 0, "t", -1, "cut", 0, "nd", nd, "nk", nk, "nildst", 0, "layout", 0, "capml", 0, "offwin", 0)
			j := mkJob(fmt.Sprintf("selftest-decode-%d-%s", i, tags), "H_decode", "internal/lz4block", tags, p)
			j.Fixed = fixed
			j.Unwind = 5000
			jobs = append(jobs, j)
		}
		// compressors
		cn := r.Intn(70)
		csrc := make([]byte, cn)
		alpha := 1 + r.Intn(4)
		for k := range csrc {
			csrc[k] = byte('a' + r.Intn(alpha))
		}
		if cn > 20 && r.Intn(2) == 0 {
			copy(csrc[cn/2:], csrc[:cn/3])
		}
		kind := r.Intn(6)
		depth := []int{0, 1, 2, 3, 512, 65537}[r.Intn(6)]
		dl := []int{-1, -1, -2, -1 - r.Intn(20), cn, cn / 2}[r.Intn(6)]
		bound := cn + cn/255 + 16
		dlen := dl
		if dl < 0 {
			dlen = bound + dl + 1
			if dlen < 0 {
				dlen = 0
			}
		}
		cdst := make([]byte, dlen+16)
		r.Read(cdst)
		fixed = nil
		fixed = append(fixed, u8s("src", csrc)...)
		fixed = append(fixed, u8s("dst", cdst)...)
		arr := func(name string, size int, mask uint64) TapeEntry {
			e := TapeEntry{Name: name, Kind: "arr"}
			for k := 0; k < 40; k++ {
				e.Entries = append(e.Entries, [2]uint64{uint64(r.Intn(size)), r.Uint64() & mask})
			}
			return e
		}
		switch kind {
		case 1, 2:
			fixed = append(fixed, arr("table", 65536, 0xffff), arr("inuse", 2048, 0xffffffff))
		case 4, 5:
			fixed = append(fixed, arr("hash", 65536, 0x3f), arr("chain", 65536, 0x3f))
		}
		p := P("n", cn, "kind", kind, "depth", depth, "dl", dl, "period", 0, "tail", 0)
		j := mkJob(fmt.Sprintf("selftest-compress-%d", i), "H_compress", "internal/lz4block", "verif,noasm", p)
		j.Fixed = fixed
		j.Unwind = 5000
		jobs = append(jobs, j)
	}
	return jobs
}

func init() {
	checkDefs["selftest"] = &CheckDef{
		Property: "selftest",
		Jobs: func(tier string) []*Job {
			n := 60
			if tier == "thorough" {
				n = 400
			}
			return selftestJobs(int64(seedFromEnv()), n)
		},
		Bounds:      func(string) []string { return []string{"concrete interpretation vs native execution on random tapes"} },
		Assumptions: []string{},
	}
}

// ---------- known-answer programs for the concurrency model ----------

type ctExpect struct {
	harness  string
	failID   string // "" = every path ends ok
	allFail  bool   // every path must fail with failID (else: some fail, some pass)
	zeroPass bool   // with 0 delays no path fails
}

var ctTable = []ctExpect{
	{"H_ct_pingpong", "", false, true},
	{"H_ct_race", "conc-race", true, false},
	{"H_ct_deadlock", "conc-deadlock", true, false},
	{"H_ct_order", "ct-order", false, true},
	{"H_ct_leak", "ct-leak", true, false},
	{"H_ct_buffered", "", false, true},
	{"H_ct_mutex", "", false, true},
	{"H_ct_pipeline", "", false, true},
	{"H_ct_closerace", "conc-race", true, false},
}

// cmdSelftestConc runs the known-answer programs under 0 and 2 delays, compares the verdicts with
// the table and replays one tape of each natively under the Go race detector.
func cmdSelftestConc() int {
	var jobs []*Job
	for _, e := range ctTable {
		for _, d := range []int{0, 2} {
			j := mkJob(fmt.Sprintf("%s-d%d", e.harness, d), e.harness, "", "verif,noasm", P())
			j.Delays = d
			jobs = append(jobs, j)
		}
	}
	s := NewSched(20000)
	s.maxFailures = 1 << 30
	s.runAll(jobs, 8)
	bad := 0
	var tapes []*Tape
	for i, j := range jobs {
		e := ctTable[i/2]
		d := j.Delays
		r := &j.res
		nfail := 0
		for _, f := range r.Failures {
			if hasPrefix(f.ID, e.failID) && e.failID != "" {
				nfail++
			} else {
				fmt.Printf("SELFTEST-CONC FAIL %s: unexpected failure %s\n", j.ID, f.ID)
				bad++
			}
		}
		nok := r.EndCounts["ok"]
		switch {
		case e.failID == "" && (nfail != 0 || nok != r.Paths):
			fmt.Printf("SELFTEST-CONC FAIL %s: expected every path to pass, got %v\n", j.ID, r.EndCounts)
			bad++
		case e.failID != "" && e.allFail && (nfail != r.Paths || r.Paths == 0):
			fmt.Printf("SELFTEST-CONC FAIL %s: expected every path to fail %s, got %d of %d (%v)\n", j.ID, e.failID, nfail, r.Paths, r.EndCounts)
			bad++
		case e.failID != "" && !e.allFail && d == 0 && nfail != 0:
			fmt.Printf("SELFTEST-CONC FAIL %s: %s must not fail without a delay\n", j.ID, e.failID)
			bad++
		case e.failID != "" && !e.allFail && d > 0 && (nfail == 0 || nok == 0):
			fmt.Printf("SELFTEST-CONC FAIL %s: expected passing and failing schedules, got %v\n", j.ID, r.EndCounts)
			bad++
		}
		if len(r.Inconclusive) > 0 {
			fmt.Printf("SELFTEST-CONC FAIL %s: inconclusive: %v\n", j.ID, r.Inconclusive[0])
			bad++
		}
		if d == 2 {
			if e.failID != "" && e.allFail && len(r.Failures) > 0 {
				tapes = append(tapes, r.Failures[0].Tape)
			} else if e.failID == "" && len(r.Witnesses) > 0 {
				tapes = append(tapes, r.Witnesses[0])
			}
		}
		fmt.Printf("selftest-conc %s: paths=%d ends=%v failures=%d\n", j.ID, r.Paths, r.EndCounts, len(r.Failures))
	}
	var log bytes.Buffer
	outs, err := replayTapesOpt(tapes, "", "verif,noasm", &log, true)
	if err != nil {
		fmt.Println("SELFTEST-CONC FAIL native replay:", err)
		return 1
	}
	for i, tp := range tapes {
		ok, why := judgeTape(tp, outs[i])
		fmt.Printf("selftest-conc native %s (%s %s): confirmed=%v %s\n", tp.Job, tp.Kind, tp.Expect.Fail, ok, why)
		if !ok {
			bad++
		}
	}
	if bad > 0 {
		return 1
	}
	fmt.Println("selftest-conc: all known-answer programs behave as expected")
	return 0
}
