package main

import (
	"encoding/json"
	"fmt"
	"os"
	"runtime/debug"
	"runtime/pprof"
	"strconv"
	"strings"
	"time"
)

func main() {
	if len(os.Args) < 2 {
		fmt.Fprintln(os.Stderr, "usage: vcheck <Cxx> [--tier quick|thorough] | vcheck run <harness> <pkg> <tags> [k=v ...]")
		os.Exit(2)
	}
	debug.SetGCPercent(400) // the interpreter allocates short-lived terms at a high rate; trade memory for time
	defer os.RemoveAll(workDir())
	if pf := os.Getenv("VERIF_CPUPROFILE"); pf != "" {
		f, _ := os.Create(pf)
		pprof.StartCPUProfile(f)
		defer pprof.StopCPUProfile()
	}
	switch os.Args[1] {
	case "run":
		code := cmdRun(os.Args[2:])
		pprof.StopCPUProfile()
		os.RemoveAll(workDir())
		os.Exit(code)
	case "jobs":
		for _, t := range []string{"quick", "thorough"} {
			n := 0
			if d := checkDefs[os.Args[2]]; d != nil {
				n = len(d.Jobs(t))
			}
			fmt.Printf("%s %s jobs=%d\n", os.Args[2], t, n)
		}
		os.Exit(0)
	case "selftest-conc":
		code := cmdSelftestConc()
		os.RemoveAll(workDir())
		os.Exit(code)
	case "replay":
		code := cmdReplay(os.Args[2])
		os.RemoveAll(workDir())
		os.Exit(code)
	default:
		code := cmdCheck(os.Args[1:])
		pprof.StopCPUProfile()
		os.RemoveAll(workDir())
		os.Exit(code)
	}
}

func cmdRun(args []string) int {
	if len(args) < 3 {
		fmt.Fprintln(os.Stderr, "usage: vcheck run <harness> <pkg> <tags> [k=v ...]")
		return 2
	}
	j := &Job{ID: args[0], Harness: args[0], Pkg: args[1], Tags: args[2], Params: map[string]int{}}
	if j.Pkg == "." {
		j.Pkg = ""
	}
	workers := 16
	for _, kv := range args[3:] {
		p := strings.SplitN(kv, "=", 2)
		v, _ := strconv.Atoi(p[1])
		switch p[0] {
		case "_unwind":
			j.Unwind = v
		case "_maxpaths":
			j.MaxPaths = v
		case "_workers":
			workers = v
		case "_delays":
			j.Delays = v
		default:
			j.Params[p[0]] = v
		}
	}
	s := NewSched(20000)
	t0 := time.Now()
	s.runAll([]*Job{j}, workers)
	r := &j.res
	fmt.Printf("paths=%d ends=%v asserts=%d obligations=%d discharged=%d steps=%d branches=%d forks=%d wall=%v\n", r.Paths, r.EndCounts, r.Asserts, r.Obligations, r.Discharged, r.Steps, r.Branches, r.Forks, time.Since(t0))
	fmt.Printf("solver: %+v\n", r.Solver)
	fmt.Printf("reached=%v events=%v\n", r.Reached, r.Events)
	for k, v := range r.EventSample {
		fmt.Printf("  event %s: %s\n", k, v)
	}
	for _, inc := range r.Inconclusive {
		fmt.Println("INCONCLUSIVE:", inc)
	}
	for _, f := range r.Failures {
		b, _ := json.Marshal(f.Tape)
		fmt.Printf("FAIL %s: %s\n", f.ID, b)
	}
	for _, f := range r.KnownHits {
		b, _ := json.Marshal(f.Tape)
		fmt.Printf("KNOWN %s %s: %s\n", f.Known, f.ID, b)
	}
	for _, w := range r.Witnesses {
		b, _ := json.Marshal(w)
		fmt.Printf("WITNESS: %s\n", b)
	}
	return 0
}

